(* Decision order on the reference interpreter: every ordered scan (clauses, segment keys, segment rules,
   prerequisites, flag rules) is "the first element that decides", characterised once by first_decided_spec. *)
From LD Require Import Base F32 Data Semver Model Ops Bucket Eval Pure.
Open Scope Z_scope.

(* run the steps in listed order; the first one that yields Some decides; if none does, the default *)
Fixpoint first_decided {A B} (step : A -> res (option B)) (l : list A) (dflt : res B) : res B :=
  match l with
  | [] => dflt
  | x :: r => rbind (step x) (fun o => match o with Some b => Done b | None => first_decided step r dflt end)
  end.

Lemma first_decided_spec {A B} (step : A -> res (option B)) l dflt b :
  first_decided step l dflt = Done b ->
  (exists pre x post, l = pre ++ x :: post /\ Forall (fun y => step y = Done None) pre /\ step x = Done (Some b))
  \/ (Forall (fun y => step y = Done None) l /\ dflt = Done b).
Proof.
  induction l as [|x r IH]; simpl; intros H.
  - right. split; [constructor|exact H].
  - destruct (step x) as [[b'|]| |] eqn:Hx; simpl in H; try discriminate.
    + inversion H; subst. left. exists [], x, r. repeat split; [constructor|exact Hx].
    + destruct (IH H) as [[pre [y [post [Hl [Hpre Hy]]]]]|[Hall Hd]].
      * left. exists (x :: pre), y, post. subst r. repeat split; [constructor; assumption|exact Hy].
      * right. split; [constructor; assumption|exact Hd].
Qed.

(* the converse: a deciding element after a prefix of undecided ones determines the result *)
Lemma first_decided_intro {A B} (step : A -> res (option B)) pre x post dflt b :
  Forall (fun y => step y = Done None) pre -> step x = Done (Some b) ->
  first_decided step (pre ++ x :: post) dflt = Done b.
Proof.
  intros Hpre Hx. induction Hpre as [|y pre Hy _ IH]; simpl.
  - rewrite Hx. reflexivity.
  - rewrite Hy. simpl. exact IH.
Qed.

Lemma first_decided_none {A B} (step : A -> res (option B)) l dflt :
  Forall (fun y => step y = Done None) l -> first_decided step l dflt = dflt.
Proof. intros H. induction H as [|y l Hy _ IH]; simpl; [reflexivity|]. rewrite Hy. exact IH. Qed.

Fixpoint indexed {A} (i : Z) (l : list A) : list (Z * A) :=
  match l with [] => [] | x :: r => (i, x) :: indexed (i + 1) r end.

Section Order.
Variable re_ok : str -> bool.
Variable re_match : str -> str -> bool.
Variable o : opts.
Variable E : env.
Variable P : bsprov.
Variable c : ctx.

(* a rule / segment rule matches iff all clauses match; the first clause that does not match (or fails) decides *)
Definition clause_step (cm : clause -> res (er bool)) (cl : clause) : res (option (er bool)) :=
  rbind (cm cl) (fun m => Done (match m with Ok true => None | other => Some other end)).

Lemma p_all_clauses_first cm cls :
  p_all_clauses cm cls = first_decided (clause_step cm) cls (Done (Ok true)).
Proof.
  induction cls as [|cl r IH]; simpl; [reflexivity|]. unfold clause_step at 1.
  destruct (cm cl) as [[[|]|e]| |]; simpl; auto.
Qed.

(* segmentMatch: the first referenced segment that exists and contains the context (or fails) decides *)
Definition segkey_step (segc : segment -> res (er bool)) (negate : bool) (v : jv) : res (option (er bool)) :=
  match v with
  | JStr k => match assoc k (e_segments E) with
              | None => Done None
              | Some sg => rbind (segc sg) (fun m => Done (match m with
                                                         | Err e => Some (Err e)
                                                         | Ok true => Some (Ok (negb negate))
                                                         | Ok false => None end))
              end
  | _ => Done None
  end.

Lemma p_any_segment_first segc negate vals :
  p_any_segment E segc negate vals = first_decided (segkey_step segc negate) vals (Done (Ok negate)).
Proof.
  induction vals as [|v r IH]; simpl; [reflexivity|].
  destruct v; simpl; auto.
  destruct (assoc x (e_segments E)); simpl; auto.
  destruct (segc s) as [[[|]|e]| |]; simpl; auto.
Qed.

Definition segrule_step (rm : segrule -> res (er bool)) (key : str) (r : segrule) : res (option (er bool)) :=
  rbind (rm r) (fun m => Done (match m with
                               | Err e => Some (Err (EMalformedSeg key e))
                               | Ok true => Some (Ok true)
                               | Ok false => None end)).

Lemma p_seg_rules_first rm key rs :
  p_seg_rules rm key rs = first_decided (segrule_step rm key) rs (Done (Ok false)).
Proof.
  induction rs as [|r rest IH]; simpl; [reflexivity|]. unfold segrule_step at 1.
  destruct (rm r) as [[[|]|e]| |]; simpl; auto.
Qed.

(* prerequisites in listed order: the first one that is missing, unmet, cyclic or aborted decides *)
Definition prereq_step (ev : flag -> res (detail * bool)) (chain' : list str) (p : prereq) : res (option prereq_outcome) :=
  match assoc (pq_key p) (e_flags E) with
  | None => Done (Some (PFailed (pq_key p)))
  | Some pf =>
    if mem_str (f_key pf) chain' then Done (Some PAbort)
    else rbind (ev pf) (fun r =>
           let '(d, ok) := r in
           Done (if negb ok then Some PAbort
                 else if prereq_met pf d (pq_var p) then None else Some (PFailed (pq_key p))))
  end.

Lemma p_prereqs_first ev chain' ps :
  p_prereqs E ev chain' ps = first_decided (prereq_step ev chain') ps (Done POk).
Proof.
  induction ps as [|p rest IH]; simpl; [reflexivity|]. unfold prereq_step at 1.
  destruct (assoc (pq_key p) (e_flags E)) as [pf|]; simpl; auto.
  destruct (mem_str (f_key pf) chain'); simpl; auto.
  destruct (ev pf) as [[d ok]| |]; simpl; auto.
  destruct (negb ok); simpl; auto. destruct (prereq_met pf d (pq_var p)); simpl; auto.
Qed.

(* flag rules in listed order: the first rule whose clauses all match serves its variation or rollout with reason
   RULE_MATCH (its index, its id); a rule whose matching fails aborts with its error kind; otherwise fallthrough *)
Definition rule_step (segc : segment -> res (er bool)) (f : flag) (ir : Z * rule) : res (option (detail * bool)) :=
  let '(i, ru) := ir in
  rbind (p_all_clauses (p_clause re_ok re_match E c segc) (ru_clauses ru)) (fun m =>
    match m with
    | Err e => Done (Some (err_detail (err_kind e), false))
    | Ok true => rbind (p_vr_detail o c f (ru_vr ru) (plain_reason (RRule i (ru_id ru)))) (fun d => Done (Some (d, true)))
    | Ok false => Done None
    end).

Lemma p_rules_first segc f rs i :
  p_rules re_ok re_match o E c segc f rs i =
  first_decided (rule_step segc f) (indexed i rs)
                (rbind (p_vr_detail o c f (f_fallthrough f) (plain_reason RFallthrough)) (fun d => Done (d, true))).
Proof.
  revert i. induction rs as [|ru rest IH]; intros i; simpl; [reflexivity|].
  destruct (p_all_clauses _ _) as [[[|]|e]| |]; simpl; auto.
  destruct (p_vr_detail o c f (ru_vr ru) _) as [d| |]; simpl; auto.
Qed.

Lemma indexed_split {A} (l : list A) i pre (x : Z * A) post :
  indexed i l = pre ++ x :: post ->
  exists lpre a lpost, l = lpre ++ a :: lpost /\ pre = indexed i lpre /\ x = (i + zlen lpre, a) /\
                       post = indexed (i + zlen lpre + 1) lpost.
Proof.
  revert i pre. induction l as [|a l IH]; intros i pre H; simpl in H.
  - destruct pre; discriminate.
  - destruct pre as [|y pre]; simpl in H.
    + inversion H; subst. exists [], a, l. unfold zlen. simpl. rewrite Z.add_0_r. auto.
    + inversion H; subst. destruct (IH _ _ H2) as [lpre [b [lpost [Hl [Hp [Hx Hpost]]]]]].
      exists (a :: lpre), b, lpost. subst.
      assert (Hz : zlen (a :: lpre) = zlen lpre + 1) by (unfold zlen; simpl List.length; lia).
      rewrite Hz. replace (i + (zlen lpre + 1)) with (i + 1 + zlen lpre) by lia.
      repeat split; reflexivity.
Qed.

(* ---- the stage order of one flag evaluation (C02) ---- *)

Lemma p_eval_off n chain f :
  f_on f = false -> p_eval re_ok re_match o E P c (S n) chain f = Done (p_off_value f (plain_reason ROff), true).
Proof. intros H. simpl. rewrite H. reflexivity. Qed.

Definition prereqs_of n chain f : res prereq_outcome :=
  match f_prereqs f with
  | [] => Done POk
  | ps => p_prereqs E (p_eval re_ok re_match o E P c n (chain ++ [f_key f])) (chain ++ [f_key f]) ps
  end.

Lemma p_eval_on n chain f :
  f_on f = true ->
  p_eval re_ok re_match o E P c (S n) chain f =
  rbind (prereqs_of n chain f) (fun p =>
    match p with
    | PAbort => Done (err_detail KMalformed, false)
    | PFailed k => Done (p_off_value f (plain_reason (RPrereqFailed k)), true)
    | POk => match any_target_match c f with
             | Some v => Done (p_get_variation f v (plain_reason RTarget), true)
             | None => p_rules re_ok re_match o E c (p_seg re_ok re_match o E P c (seg_fuel E) []) f (f_rules f) 0
             end
    end).
Proof. intros H. cbn [p_eval]. rewrite H. reflexivity. Qed.

(* an unmet prerequisite decides before targets and rules are even looked at *)
Lemma p_eval_prereq_failed n chain f k :
  f_on f = true -> prereqs_of n chain f = Done (PFailed k) ->
  p_eval re_ok re_match o E P c (S n) chain f = Done (p_off_value f (plain_reason (RPrereqFailed k)), true).
Proof. intros H1 H2. rewrite p_eval_on by exact H1. rewrite H2. reflexivity. Qed.

(* a matching target decides whatever the rules and the fallthrough say *)
Lemma p_eval_target n chain f v :
  f_on f = true -> prereqs_of n chain f = Done POk -> any_target_match c f = Some v ->
  p_eval re_ok re_match o E P c (S n) chain f = Done (p_get_variation f v (plain_reason RTarget), true).
Proof. intros H1 H2 H3. rewrite p_eval_on by exact H1. rewrite H2. simpl. rewrite H3. reflexivity. Qed.

Definition rule_status (ru : rule) : res (er bool) :=
  p_all_clauses (p_clause re_ok re_match E c (p_seg re_ok re_match o E P c (seg_fuel E) [])) (ru_clauses ru).

(* rules: characterisation of every possible outcome of the rule stage *)
Theorem p_rules_outcome f d ok :
  p_rules re_ok re_match o E c (p_seg re_ok re_match o E P c (seg_fuel E) []) f (f_rules f) 0 = Done (d, ok) ->
  (exists pre ru post, f_rules f = pre ++ ru :: post /\
      Forall (fun r => rule_status r = Done (Ok false)) pre /\ rule_status ru = Done (Ok true) /\
      p_vr_detail o c f (ru_vr ru) (plain_reason (RRule (zlen pre) (ru_id ru))) = Done d /\ ok = true)
  \/ (exists pre ru post e, f_rules f = pre ++ ru :: post /\
      Forall (fun r => rule_status r = Done (Ok false)) pre /\ rule_status ru = Done (Err e) /\
      d = err_detail (err_kind e) /\ ok = false)
  \/ (Forall (fun r => rule_status r = Done (Ok false)) (f_rules f) /\
      p_vr_detail o c f (f_fallthrough f) (plain_reason RFallthrough) = Done d /\ ok = true).
Proof.
  rewrite p_rules_first. intros H. apply first_decided_spec in H.
  assert (Hstep0 : forall l i, Forall (fun y => rule_step (p_seg re_ok re_match o E P c (seg_fuel E) []) f y = Done None) (indexed i l) ->
                               Forall (fun r => rule_status r = Done (Ok false)) l).
  { induction l as [|a l IHl]; intros i Hf; simpl in *; [constructor|]. inversion Hf; subst. constructor; [|eapply IHl; eauto].
    unfold rule_step in H2. unfold rule_status. destruct (p_all_clauses _ _) as [[[|]|e]| |]; simpl in H2; try discriminate; auto.
    exfalso. destruct (p_vr_detail o c f (ru_vr a) (plain_reason (RRule i (ru_id a)))); simpl in H2; discriminate. }
  destruct H as [[pre [[i ru] [post [Hl [Hpre Hx]]]]]|[Hall Hd]].
  - destruct (indexed_split _ _ _ _ _ Hl) as [lpre [a [lpost [Hrs [Hp [Hxa Hpost]]]]]].
    inversion Hxa; subst i a. subst pre.
    unfold rule_step in Hx. fold (rule_status ru) in Hx.
    destruct (rule_status ru) as [[[|]|e]| |] eqn:Hs; simpl in Hx; try discriminate.
    + left. exists lpre, ru, lpost. repeat split; auto; [eapply Hstep0; eauto| |].
      * destruct (p_vr_detail _ _ _ _ _) as [d'| |]; simpl in Hx; try discriminate. inversion Hx; subst. reflexivity.
      * destruct (p_vr_detail _ _ _ _ _) as [d'| |]; simpl in Hx; try discriminate. inversion Hx; reflexivity.
    + right; left. inversion Hx; subst. exists lpre, ru, lpost, e. repeat split; auto. eapply Hstep0; eauto.
  - right; right. split; [eapply Hstep0; eauto|].
    destruct (p_vr_detail _ _ _ _ _) as [d'| |]; simpl in Hd; try discriminate. inversion Hd; subst. auto.
Qed.

(* prerequisites: the outcome PFailed k names the FIRST listed prerequisite that is missing or unmet *)
Theorem p_prereqs_outcome ev chain' ps out :
  p_prereqs E ev chain' ps = Done out ->
  (exists pre p post, ps = pre ++ p :: post /\ Forall (fun q => prereq_step ev chain' q = Done None) pre /\
                      prereq_step ev chain' p = Done (Some out))
  \/ (Forall (fun q => prereq_step ev chain' q = Done None) ps /\ out = POk).
Proof.
  rewrite p_prereqs_first. intros H. apply first_decided_spec in H.
  destruct H as [H|[H1 H2]]; [left; exact H|right; split; [exact H1|congruence]].
Qed.

(* what "met" means for one prerequisite step *)
Lemma prereq_step_met ev chain' p :
  prereq_step ev chain' p = Done None <->
  exists pf d, assoc (pq_key p) (e_flags E) = Some pf /\ mem_str (f_key pf) chain' = false /\
               ev pf = Done (d, true) /\ f_on pf = true /\ d_index d = Some (pq_var p).
Proof.
  unfold prereq_step. split.
  - intros H.
    destruct (assoc (pq_key p) (e_flags E)) as [pf|] eqn:Ha; [|discriminate].
    destruct (mem_str (f_key pf) chain') eqn:Hm; [discriminate|].
    destruct (ev pf) as [[d ok]| |] eqn:He; simpl in H; try discriminate.
    destruct ok; simpl in H; [|discriminate]. unfold prereq_met in H.
    destruct (f_on pf) eqn:Hon; simpl in H; [|discriminate].
    destruct (d_index d) as [i|] eqn:Hd; [|discriminate]. destruct (i =? pq_var p) eqn:Hi; [|discriminate].
    apply Z.eqb_eq in Hi. subst i. exists pf, d. auto 10.
  - intros [pf [d [H1 [H2 [H3 [H4 H5]]]]]]. rewrite H1, H2, H3. simpl. unfold prereq_met. rewrite H4, H5. simpl.
    rewrite Z.eqb_refl. reflexivity.
Qed.

End Order.

(* What an option list means: nil entries are skipped wherever they stand, and for each kind of option the last one
   given decides (none given: off / absent). *)
From LD Require Import Base Options.

Lemma fold_apply_app l1 l2 c : fold_left apply_eopt (l1 ++ l2) c = fold_left apply_eopt l2 (fold_left apply_eopt l1 c).
Proof. apply fold_left_app. Qed.

Theorem nil_options_are_skipped l1 l2 : build_ecfg (l1 ++ None :: l2) = build_ecfg (l1 ++ l2).
Proof. unfold build_ecfg. rewrite !fold_apply_app. reflexivity. Qed.

(* the last option of each kind *)
Definition last_secondary (l : list (option eopt)) : option bool :=
  fold_left (fun acc o => match o with Some (OSecondary b) => Some b | _ => acc end) l None.
Definition last_logger (l : list (option eopt)) : option bool :=
  fold_left (fun acc o => match o with Some (OLogger b) => Some b | _ => acc end) l None.
Definition last_provider (l : list (option eopt)) : option bool :=
  fold_left (fun acc o => match o with Some (OProvider b) => Some b | _ => acc end) l None.

Definition or_default (o : option bool) (d : bool) : bool := match o with Some b => b | None => d end.

Lemma build_gen l : forall c s g p,
  ec_secondary c = or_default s false -> ec_logger c = or_default g false -> ec_provider c = or_default p false ->
  let c' := fold_left apply_eopt l c in
  ec_secondary c' = or_default (fold_left (fun acc o => match o with Some (OSecondary b) => Some b | _ => acc end) l s) false /\
  ec_logger c' = or_default (fold_left (fun acc o => match o with Some (OLogger b) => Some b | _ => acc end) l g) false /\
  ec_provider c' = or_default (fold_left (fun acc o => match o with Some (OProvider b) => Some b | _ => acc end) l p) false.
Proof.
  induction l as [|o l IH]; intros c s g p Hs Hg Hp; cbn [fold_left]; [auto|].
  destruct o as [[b|b|b]|]; cbn [apply_eopt]; apply IH; cbn; auto.
Qed.

Theorem last_option_of_each_kind_wins l :
  ec_secondary (build_ecfg l) = or_default (last_secondary l) false /\
  ec_logger (build_ecfg l) = or_default (last_logger l) false /\
  ec_provider (build_ecfg l) = or_default (last_provider l) false.
Proof. apply (build_gen l ecfg0 None None None); reflexivity. Qed.

(* two neighbouring options of different kinds may be given in either order *)
Definition same_kind (a b : eopt) : bool :=
  match a, b with
  | OSecondary _, OSecondary _ | OLogger _, OLogger _ | OProvider _, OProvider _ => true
  | _, _ => false
  end.
Theorem different_kinds_commute l1 a b l2 : same_kind a b = false ->
  build_ecfg (l1 ++ Some a :: Some b :: l2) = build_ecfg (l1 ++ Some b :: Some a :: l2).
Proof.
  intro H. unfold build_ecfg. rewrite !fold_apply_app. cbn [fold_left]. f_equal.
  destruct a, b; try discriminate; reflexivity.
Qed.

Example options_example :
  build_ecfg [None; Some (OSecondary true); Some (OLogger true); None; Some (OLogger false); Some (OProvider true)]
  = mkecfg true false true.
Proof. reflexivity. Qed.

(* what the evaluator is run with *)
From LD Require Import F32 Data Model Ops Bucket Eval.
Definition opts_of (c : ecfg) (recorder : bool) : opts := mkopts (ec_secondary c) (ec_logger c) recorder.

Theorem nil_option_does_not_change_evaluation re_ok re_match l1 l2 recorder E P c f :
  run re_ok re_match (opts_of (build_ecfg (l1 ++ None :: l2)) recorder) E P c f =
  run re_ok re_match (opts_of (build_ecfg (l1 ++ l2)) recorder) E P c f.
Proof. rewrite nil_options_are_skipped. reflexivity. Qed.

(* The nesting scan of the byte entry points, proved against the text of the documents it is run over:
   a document (the compact rendering of any JSON tree; strings may hold brackets, quotes and backslashes) is passed on
   exactly when the tree nests at most [limit] arrays / objects, and in every accepted byte string -- well-formed or not --
   no prefix leaves more than [limit] brackets open, which bounds the recursion of the readers behind the scan. *)
From LD Require Import Base Nesting.
Open Scope Z_scope.

Section DocInd.
  Variable P : doc -> Prop.
  Hypothesis Htok : forall w, P (DTok w).
  Hypothesis Hstr : forall x, P (DStr x).
  Hypothesis Harr : forall l, Forall P l -> P (DArr l).
  Hypothesis Hobj : forall l, Forall (fun kt => P (snd kt)) l -> P (DObj l).
  Fixpoint doc_ind' (t : doc) : P t :=
    match t with
    | DTok w => Htok w
    | DStr x => Hstr x
    | DArr l => Harr l ((fix go (l : list doc) : Forall P l :=
                           match l with [] => Forall_nil _ | t :: r => Forall_cons _ (doc_ind' t) (go r) end) l)
    | DObj l => Hobj l ((fix go (l : list (str * doc)) : Forall (fun kt => P (snd kt)) l :=
                           match l with
                           | [] => Forall_nil _
                           | kt :: r => Forall_cons kt (match kt as kt0 return P (snd kt0) with (k, t') => doc_ind' t' end) (go r)
                           end) l)
    end.
End DocInd.

Lemma doc_depth_nonneg t : 0 <= doc_depth t.
Proof.
  induction t as [w|x|l IH|l IH] using doc_ind'; cbn [doc_depth]; try lia.
  - assert (0 <= fold_right (fun t acc => Z.max (doc_depth t) acc) 0 l) by (clear; induction l; cbn [fold_right]; lia). lia.
  - assert (0 <= fold_right (fun kt acc => Z.max (doc_depth (snd kt)) acc) 0 l) by (clear; induction l; cbn [fold_right]; lia). lia.
Qed.

Section Scan.
Variable limit : Z.
Notation scan := (nest_scan limit).

(* a piece of text that needs k further levels: from any depth d <= limit outside a string it is passed over when
   d + k <= limit and stops the scan otherwise *)
Definition passes (k : Z) (seg : str) : Prop :=
  forall d rest, d <= limit ->
    (d + k <= limit -> scan d false false (seg ++ rest) = scan d false false rest) /\
    (limit < d + k -> scan d false false (seg ++ rest) = false).

Lemma passes_nil : passes 0 [].
Proof. intros d rest Hd; split; intro H; [reflexivity | lia]. Qed.

Lemma passes_app k1 k2 s1 s2 : passes k1 s1 -> passes k2 s2 -> passes (Z.max k1 k2) (s1 ++ s2).
Proof.
  intros H1 H2 d rest Hd. rewrite <- app_assoc.
  destruct (H1 d (s2 ++ rest) Hd) as [A1 B1]. destruct (H2 d rest Hd) as [A2 B2].
  split; intro H.
  - rewrite A1 by lia. apply A2. lia.
  - destruct (Z_lt_le_dec limit (d + k1)) as [L|L].
    + apply B1; exact L.
    + rewrite A1 by exact L. apply B2. lia.
Qed.

Lemma passes_plain_byte ch : plain_byte ch = true -> passes 0 [ch].
Proof.
  unfold plain_byte. intros Hp d rest Hd.
  apply negb_true_iff in Hp. apply orb_false_iff in Hp as [Hp Hc]. apply orb_false_iff in Hp as [Hq Ho].
  split; intro H; [|lia].
  cbn [app nest_scan]. rewrite Hq, Ho, Hc. reflexivity.
Qed.

Lemma passes_plain w : forallb plain_byte w = true -> passes 0 w.
Proof.
  induction w as [|ch w IH]; intro H.
  - apply passes_nil.
  - cbn [forallb] in H. apply andb_true_iff in H as [H1 H2].
    change (ch :: w) with ([ch] ++ w). change 0 with (Z.max 0 0).
    apply passes_app; [apply passes_plain_byte; exact H1 | apply IH; exact H2].
Qed.

Lemma scan_in_string x d rest :
  scan d true false (esc_str x ++ ch_quote :: rest) = scan d false false rest.
Proof.
  induction x as [|ch x IH]; cbn [esc_str app].
  - cbn [nest_scan]. reflexivity.
  - destruct (N.eqb ch ch_quote || N.eqb ch ch_bslash) eqn:E.
    + cbn [app nest_scan]. change (N.eqb ch_bslash ch_bslash) with true. cbn iota. exact IH.
    + apply orb_false_iff in E as [Eq Eb]. cbn [app nest_scan]. rewrite Eb, Eq. exact IH.
Qed.

Lemma passes_str x : passes 0 (render_str x).
Proof.
  intros d rest Hd. split; intro H; [|lia].
  unfold render_str. cbn [app nest_scan]. change (N.eqb ch_quote ch_quote) with true. cbn iota.
  rewrite <- app_assoc. cbn [app]. apply scan_in_string.
Qed.

Lemma passes_wrap k o c body :
  0 <= k -> is_open o = true -> is_close c = true ->
  (forall d rest, d <= limit ->
     (d + k <= limit -> scan d false false (body ++ rest) = scan d false false rest) /\
     (limit < d + k -> scan d false false (body ++ rest) = false)) ->
  passes (1 + k) (o :: body ++ [c]).
Proof.
  intros Hk Ho Hc Hb d rest Hd.
  assert (Hoq : N.eqb o ch_quote = false).
  { unfold is_open in Ho. apply orb_true_iff in Ho as [E|E]; apply N.eqb_eq in E; subst; reflexivity. }
  assert (Hcq : N.eqb c ch_quote = false).
  { unfold is_close in Hc. apply orb_true_iff in Hc as [E|E]; apply N.eqb_eq in E; subst; reflexivity. }
  assert (Hco : is_open c = false).
  { unfold is_close in Hc. apply orb_true_iff in Hc as [E|E]; apply N.eqb_eq in E; subst; reflexivity. }
  cbn [app nest_scan]. rewrite Hoq, Ho. rewrite <- app_assoc. cbn [app].
  split; intro H.
  - destruct (Z.ltb_spec limit (d + 1)) as [L|L]; [lia|].
    destruct (Hb (d + 1) (c :: rest)) as [A _]; [lia|]. rewrite A by lia.
    cbn [nest_scan]. rewrite Hcq, Hco, Hc. replace (d + 1 - 1) with d by lia. reflexivity.
  - destruct (Z.ltb_spec limit (d + 1)) as [L|L]; [reflexivity|].
    destruct (Hb (d + 1) (c :: rest)) as [_ B]; [lia|]. apply B. lia.
Qed.

Lemma passes_sep (ks : list Z) (segs : list str) k :
  Forall2 (fun k s => passes k s) ks segs -> k = fold_right Z.max 0 ks -> passes k (sep_concat segs).
Proof.
  intros H. revert k. induction H as [|k1 s1 ks segs H1 H IH]; intros k Hk; subst k.
  - cbn. apply passes_nil.
  - cbn [fold_right sep_concat]. destruct segs as [|s2 segs].
    + inversion H; subst. cbn [fold_right]. intros d rest Hd. destruct (H1 d rest Hd) as [A B].
      split; intro Hx; [apply A | apply B]; lia.
    + change (s1 ++ comma :: sep_concat (s2 :: segs)) with (s1 ++ ([comma] ++ sep_concat (s2 :: segs))).
      apply passes_app; [exact H1|].
      replace (fold_right Z.max 0 ks) with (Z.max 0 (fold_right Z.max 0 ks)).
      * apply passes_app; [apply passes_plain_byte; reflexivity | apply IH; reflexivity].
      * assert (0 <= fold_right Z.max 0 ks) by (clear; induction ks; cbn; lia). lia.
Qed.

Theorem render_passes t : doc_plain t = true -> passes (doc_depth t) (render t).
Proof.
  induction t as [w|x|l IH|l IH] using doc_ind'; intro Hp.
  - cbn [doc_depth render]. apply passes_plain. exact Hp.
  - cbn [doc_depth render]. apply passes_str.
  - cbn [doc_depth render].
    apply passes_wrap; [|reflexivity|reflexivity|].
    + clear. induction l; cbn; lia.
    + change (passes (fold_right (fun t acc => Z.max (doc_depth t) acc) 0 l) (sep_concat (map render l))).
      apply passes_sep with (ks := map doc_depth l).
      * cbn [doc_plain] in Hp. rewrite forallb_forall in Hp. rewrite Forall_forall in IH.
        clear -Hp IH. induction l as [|t l IHl]; cbn [map]; constructor.
        -- apply IH; [left; reflexivity | apply Hp; left; reflexivity].
        -- apply IHl; intros; [apply IH | apply Hp]; try right; assumption.
      * clear. induction l; cbn; congruence.
  - cbn [doc_depth render].
    apply passes_wrap; [|reflexivity|reflexivity|].
    + clear. induction l; cbn; lia.
    + change (passes (fold_right (fun kt acc => Z.max (doc_depth (snd kt)) acc) 0 l)
                     (sep_concat (map (fun kt => match kt with (k, t) => render_str k ++ colon :: render t end) l))).
      apply passes_sep with (ks := map (fun kt => doc_depth (snd kt)) l).
      * cbn [doc_plain] in Hp. rewrite forallb_forall in Hp. rewrite Forall_forall in IH.
        clear -Hp IH. induction l as [|[k t] l IHl]; cbn [map]; constructor.
        -- cbn [snd]. change (render_str k ++ colon :: render t) with (render_str k ++ ([colon] ++ render t)).
           replace (doc_depth t) with (Z.max 0 (Z.max 0 (doc_depth t))) by (pose proof (doc_depth_nonneg t); lia).
           apply passes_app; [apply passes_str|]. apply passes_app; [apply passes_plain_byte; reflexivity|].
           apply (IH (k, t)); [left; reflexivity | apply (Hp (k, t)); left; reflexivity].
        -- apply IHl; intros; [apply IH | apply Hp]; try right; assumption.
      * clear. induction l; cbn; congruence.
Qed.

(* the scan decides the nesting depth of the tree *)
Theorem scan_render_exact t : 0 <= limit -> doc_plain t = true ->
  scan 0 false false (render t) = (doc_depth t <=? limit).
Proof.
  intros Hl Hp. destruct (render_passes t Hp 0 [] Hl) as [A B]. rewrite app_nil_r in A, B.
  destruct (Z.leb_spec (doc_depth t) limit) as [L|L].
  - rewrite A by lia. reflexivity.
  - apply B. lia.
Qed.

(* whatever the bytes are: an accepted byte string never has more than [limit] brackets open outside strings *)
Theorem accepted_prefixes_bounded bs : forall d ins esc,
  d <= limit -> scan d ins esc bs = true ->
  forall pre suf, bs = pre ++ suf -> fst (fst (nest_state d ins esc pre)) <= limit.
Proof.
  induction bs as [|ch r IH]; intros d ins esc Hd Hs pre suf E.
  - destruct pre; [cbn; exact Hd | discriminate].
  - destruct pre as [|c pre]; [cbn; exact Hd|].
    cbn [app] in E. injection E as E1 E. subst c.
    cbn [nest_scan] in Hs. cbn [nest_state].
    destruct ins.
    + destruct esc; [eapply IH; eauto|].
      destruct (N.eqb ch ch_bslash); [eapply IH; eauto|].
      destruct (N.eqb ch ch_quote); eapply IH; eauto.
    + destruct (N.eqb ch ch_quote); [eapply IH; eauto|].
      destruct (is_open ch).
      * destruct (Z.ltb_spec limit (d + 1)) as [L|L]; [discriminate|]. eapply IH; eauto.
      * destruct (is_close ch); eapply IH; eauto. lia.
Qed.

(* the unbounded scan and the bounded one walk through the same states *)
Lemma scan_true_iff bs : forall d ins esc, d <= limit ->
  (scan d ins esc bs = true <->
   forall pre suf, bs = pre ++ suf -> fst (fst (nest_state d ins esc pre)) <= limit).
Proof.
  intros d ins esc Hd. split; [apply accepted_prefixes_bounded; exact Hd|].
  revert d ins esc Hd. induction bs as [|ch r IH]; intros d ins esc Hd H; [reflexivity|].
  assert (Hn : forall d' ins' esc', nest_state d ins esc [ch] = (d', ins', esc') ->
               (forall pre suf, r = pre ++ suf -> fst (fst (nest_state d' ins' esc' pre)) <= limit)).
  { intros d' ins' esc' E pre suf Er. specialize (H (ch :: pre) suf). cbn [app] in H. rewrite Er in H. specialize (H eq_refl).
    cbn [nest_state] in H, E.
    destruct ins; [destruct esc; [|destruct (N.eqb ch ch_bslash); [|destruct (N.eqb ch ch_quote)]]
                  |destruct (N.eqb ch ch_quote); [|destruct (is_open ch); [|destruct (is_close ch)]]];
      injection E as <- <- <-; exact H. }
  assert (H1 := H [ch] r eq_refl).
  cbn [nest_scan]. cbn [nest_state] in Hn, H1.
  destruct ins.
  - destruct esc; [apply IH; [exact Hd | eapply Hn; reflexivity]|].
    destruct (N.eqb ch ch_bslash); [apply IH; [exact Hd | eapply Hn; reflexivity]|].
    destruct (N.eqb ch ch_quote); (apply IH; [exact Hd | eapply Hn; reflexivity]).
  - destruct (N.eqb ch ch_quote); [apply IH; [exact Hd | eapply Hn; reflexivity]|].
    destruct (is_open ch).
    + cbn in H1. destruct (Z.ltb_spec limit (d + 1)) as [L|L]; [lia|]. apply IH; [lia | eapply Hn; reflexivity].
    + destruct (is_close ch); (apply IH; [lia | eapply Hn; reflexivity]).
Qed.

End Scan.

(* n arrays around a scalar: the shape of the probes *)
Lemma nest_depth n t : doc_depth (nest n t) = Z.of_nat n + doc_depth t.
Proof.
  induction n as [|n IH]; [cbn; lia|].
  cbn [nest doc_depth fold_right]. rewrite IH. pose proof (doc_depth_nonneg t). lia.
Qed.
Lemma nest_plain n t : doc_plain (nest n t) = doc_plain t.
Proof. induction n as [|n IH]; [reflexivity|]. cbn [nest doc_plain forallb]. rewrite IH. apply andb_true_r. Qed.

Theorem nesting_ok_exact t : doc_plain t = true -> nesting_ok (render t) = (doc_depth t <=? nesting_limit).
Proof. intro Hp. unfold nesting_ok. apply scan_render_exact; [unfold nesting_limit; lia | exact Hp]. Qed.

Theorem nesting_ok_bounds bs : nesting_ok bs = true ->
  forall pre suf, bs = pre ++ suf -> open_level pre <= nesting_limit.
Proof.
  intros H pre suf E. unfold open_level.
  eapply accepted_prefixes_bounded; [|exact H|exact E]. unfold nesting_limit; lia.
Qed.

Theorem nesting_ok_iff bs : nesting_ok bs = true <-> forall pre suf, bs = pre ++ suf -> open_level pre <= nesting_limit.
Proof. unfold nesting_ok, open_level. apply scan_true_iff. unfold nesting_limit; lia. Qed.

Theorem deep_arrays_refused n w : forallb plain_byte w = true ->
  nesting_ok (render (nest n (DTok w))) = (Z.of_nat n <=? nesting_limit).
Proof.
  intro Hw. rewrite nesting_ok_exact by (rewrite nest_plain; exact Hw).
  rewrite nest_depth. cbn [doc_depth]. rewrite Z.add_0_r. reflexivity.
Qed.

(* brackets inside strings do not count *)
Example brackets_in_strings_do_not_count :
  nesting_ok (render (DArr [DStr (concat (repeat (s "[{\""") (N.to_nat 20000)))])) = true.
Proof. rewrite nesting_ok_exact by reflexivity. reflexivity. Qed.

(* ldbuilders: the flag, rule and clause builders.  A builder is a flag (rule) value under construction; every method
   overwrites one field or appends to one list; Build() returns a copy (and precomputes lookup data, which neither the
   encoder nor evaluation can see -- Prep.v, PrepEval.v) and leaves the builder as it was. *)
From LD Require Import Base F32 Data Model Ops Codec.
Open Scope Z_scope.

(* Clause / ClauseWithKind / SegmentMatchClause / Negate *)
Definition b_clause (kind attr : str) (op : str) (values : list jv) : clause :=
  mkclause kind (new_literal_ref attr) op values false cpre_none.
Definition b_segment_match (keys : list str) : clause :=
  mkclause [] ref_undef op_segment (map JStr keys) false cpre_none.
Definition b_negate (c : clause) : clause :=
  mkclause (cl_kind c) (cl_attr c) (cl_op c) (cl_values c) true (cl_pre c).

(* Variation / Rollout / Experiment *)
Definition b_variation (i : Z) : vorr := mkvorr (Some i) rollout0.
Definition b_rollout (buckets : list wvar) : vorr := mkvorr None (mkrollout (s "rollout") [] buckets ref_undef None).
Definition b_experiment (seed : option Z) (buckets : list wvar) : vorr :=
  mkvorr None (mkrollout (s "experiment") [] buckets ref_undef seed).

(* RuleBuilder *)
Inductive rbop := RClauses (l : list clause) | RId (x : str) | RTrack (b : bool) | RVorr (vr : vorr).
Definition rule0 : rule := mkrule vorr0 [] [] false.
Definition rb_apply (r : rule) (o : rbop) : rule :=
  match o with
  | RClauses l => mkrule (ru_vr r) (ru_id r) l (ru_track r)
  | RId x => mkrule (ru_vr r) x (ru_clauses r) (ru_track r)
  | RTrack b => mkrule (ru_vr r) (ru_id r) (ru_clauses r) b
  | RVorr vr => mkrule vr (ru_id r) (ru_clauses r) (ru_track r)
  end.
Definition rb_build (ops : list rbop) : rule := fold_left rb_apply ops rule0.

(* FlagBuilder *)
Inductive fbop :=
| FAddPrereq (k : str) (v : Z)
| FAddRule (ops : list rbop)
| FAddTarget (v : Z) (keys : list str)
| FAddCtxTarget (kind : str) (v : Z) (keys : list str)
| FCSEnv (b : bool) | FCSMobile (b : bool)
| FDebug (z : Z) | FDeleted (b : bool) | FExclude (b : bool)
| FFallthrough (vr : vorr) | FOffVar (v : Z) | FOn (b : bool) | FSalt (x : str)
| FSampling (z : Z) | FSingleVar (v : jv) | FTrack (b : bool) | FTrackFt (b : bool)
| FVars (l : list jv) | FVersion (z : Z) | FMigration (check : option Z)
| FBuild.

Definition fb_new (key : str) : flag :=
  mkflag key false [] [] [] [] vorr0 None [] [] false false (mkfmeta 0 false false 0 true false false None None).

Definition set_meta (f : flag) (m : fmeta) : flag :=
  mkflag (f_key f) (f_on f) (f_prereqs f) (f_targets f) (f_ctargets f) (f_rules f) (f_fallthrough f) (f_off f) (f_vars f)
         (f_salt f) (f_track_ft f) (f_exclude f) m.

Definition fb_apply (f : flag) (o : fbop) : flag :=
  let m := f_meta f in
  match o with
  | FAddPrereq k v => mkflag (f_key f) (f_on f) (f_prereqs f ++ [mkprereq k v]) (f_targets f) (f_ctargets f) (f_rules f)
                             (f_fallthrough f) (f_off f) (f_vars f) (f_salt f) (f_track_ft f) (f_exclude f) m
  | FAddRule ops => mkflag (f_key f) (f_on f) (f_prereqs f) (f_targets f) (f_ctargets f) (f_rules f ++ [rb_build ops])
                           (f_fallthrough f) (f_off f) (f_vars f) (f_salt f) (f_track_ft f) (f_exclude f) m
  | FAddTarget v keys => mkflag (f_key f) (f_on f) (f_prereqs f) (f_targets f ++ [mktarget [] keys v None]) (f_ctargets f)
                                (f_rules f) (f_fallthrough f) (f_off f) (f_vars f) (f_salt f) (f_track_ft f) (f_exclude f) m
  | FAddCtxTarget kind v keys => mkflag (f_key f) (f_on f) (f_prereqs f) (f_targets f) (f_ctargets f ++ [mktarget kind keys v None])
                                        (f_rules f) (f_fallthrough f) (f_off f) (f_vars f) (f_salt f) (f_track_ft f) (f_exclude f) m
  | FCSEnv b => set_meta f (mkfmeta (fm_version m) (fm_deleted m) (fm_track_events m) (fm_debug_until m) (fm_cs_mobile m) b true
                                    (fm_sampling m) (fm_migration m))
  | FCSMobile b => set_meta f (mkfmeta (fm_version m) (fm_deleted m) (fm_track_events m) (fm_debug_until m) b (fm_cs_env m) true
                                       (fm_sampling m) (fm_migration m))
  | FDebug z => set_meta f (mkfmeta (fm_version m) (fm_deleted m) (fm_track_events m) z (fm_cs_mobile m) (fm_cs_env m)
                                    (fm_cs_explicit m) (fm_sampling m) (fm_migration m))
  | FDeleted b => set_meta f (mkfmeta (fm_version m) b (fm_track_events m) (fm_debug_until m) (fm_cs_mobile m) (fm_cs_env m)
                                      (fm_cs_explicit m) (fm_sampling m) (fm_migration m))
  | FExclude b => mkflag (f_key f) (f_on f) (f_prereqs f) (f_targets f) (f_ctargets f) (f_rules f) (f_fallthrough f) (f_off f)
                         (f_vars f) (f_salt f) (f_track_ft f) b m
  | FFallthrough vr => mkflag (f_key f) (f_on f) (f_prereqs f) (f_targets f) (f_ctargets f) (f_rules f) vr (f_off f)
                              (f_vars f) (f_salt f) (f_track_ft f) (f_exclude f) m
  | FOffVar v => mkflag (f_key f) (f_on f) (f_prereqs f) (f_targets f) (f_ctargets f) (f_rules f) (f_fallthrough f) (Some v)
                        (f_vars f) (f_salt f) (f_track_ft f) (f_exclude f) m
  | FOn b => mkflag (f_key f) b (f_prereqs f) (f_targets f) (f_ctargets f) (f_rules f) (f_fallthrough f) (f_off f)
                    (f_vars f) (f_salt f) (f_track_ft f) (f_exclude f) m
  | FSalt x => mkflag (f_key f) (f_on f) (f_prereqs f) (f_targets f) (f_ctargets f) (f_rules f) (f_fallthrough f) (f_off f)
                      (f_vars f) x (f_track_ft f) (f_exclude f) m
  | FSampling z => set_meta f (mkfmeta (fm_version m) (fm_deleted m) (fm_track_events m) (fm_debug_until m) (fm_cs_mobile m)
                                       (fm_cs_env m) (fm_cs_explicit m) (Some z) (fm_migration m))
  | FSingleVar v => (* Variations(v).OffVariation(0).On(false) *)
    mkflag (f_key f) false (f_prereqs f) (f_targets f) (f_ctargets f) (f_rules f) (f_fallthrough f) (Some 0)
           [v] (f_salt f) (f_track_ft f) (f_exclude f) m
  | FTrack b => set_meta f (mkfmeta (fm_version m) (fm_deleted m) b (fm_debug_until m) (fm_cs_mobile m) (fm_cs_env m)
                                    (fm_cs_explicit m) (fm_sampling m) (fm_migration m))
  | FTrackFt b => mkflag (f_key f) (f_on f) (f_prereqs f) (f_targets f) (f_ctargets f) (f_rules f) (f_fallthrough f) (f_off f)
                         (f_vars f) (f_salt f) b (f_exclude f) m
  | FVars l => mkflag (f_key f) (f_on f) (f_prereqs f) (f_targets f) (f_ctargets f) (f_rules f) (f_fallthrough f) (f_off f)
                      l (f_salt f) (f_track_ft f) (f_exclude f) m
  | FVersion z => set_meta f (mkfmeta z (fm_deleted m) (fm_track_events m) (fm_debug_until m) (fm_cs_mobile m) (fm_cs_env m)
                                      (fm_cs_explicit m) (fm_sampling m) (fm_migration m))
  | FMigration cr => set_meta f (mkfmeta (fm_version m) (fm_deleted m) (fm_track_events m) (fm_debug_until m) (fm_cs_mobile m)
                                         (fm_cs_env m) (fm_cs_explicit m) (fm_sampling m) (Some cr))
  | FBuild => f
  end.

(* the value Build() returns after the given calls, lookup data aside *)
Definition fb_build (key : str) (ops : list fbop) : flag := fold_left fb_apply ops (fb_new key).

(* SegmentRuleBuilder / SegmentBuilder *)
Inductive srbop := SRBucketBy (attr : str) | SRBucketByRef (attr : str) | SRClauses (l : list clause) | SRId (x : str)
                 | SRKind (k : str) | SRWeight (z : Z).
Definition segrule0 : segrule := mksegrule [] [] None ref_undef [].
Definition srb_apply (r : segrule) (o : srbop) : segrule :=
  match o with
  | SRBucketBy a => mksegrule (sr_id r) (sr_clauses r) (sr_weight r) (new_literal_ref a) (sr_kind r)
  | SRBucketByRef a => mksegrule (sr_id r) (sr_clauses r) (sr_weight r) (new_ref a) (sr_kind r)
  | SRClauses l => mksegrule (sr_id r) l (sr_weight r) (sr_bucket_by r) (sr_kind r)
  | SRId x => mksegrule x (sr_clauses r) (sr_weight r) (sr_bucket_by r) (sr_kind r)
  | SRKind k => mksegrule (sr_id r) (sr_clauses r) (sr_weight r) (sr_bucket_by r) k
  | SRWeight z => mksegrule (sr_id r) (sr_clauses r) (Some z) (sr_bucket_by r) (sr_kind r)
  end.
Definition srb_build (ops : list srbop) : segrule := fold_left srb_apply ops segrule0.

Inductive sbop :=
| SAddRule (ops : list srbop) | SExcluded (keys : list str) | SIncluded (keys : list str)
| SIncCtx (kind : str) (keys : list str) | SExcCtx (kind : str) (keys : list str)
| SVersion (z : Z) | SSalt (x : str) | SUnbounded (b : bool) | SUnbKind (k : str) | SGeneration (z : Z) | SBuild.

Definition sb_new (key : str) : segment := mksegment key [] [] [] [] [] [] false [] 0 None false None None.

Definition sb_apply (g : segment) (o : sbop) : segment :=
  let mk inc exc ic ec salt rules unb uk ver gen :=
      mksegment (sg_key g) inc exc ic ec salt rules unb uk ver gen (sg_deleted g) (sg_pre_inc g) (sg_pre_exc g) in
  let inc := sg_included g in let exc := sg_excluded g in let ic := sg_inc_ctx g in let ec := sg_exc_ctx g in
  let salt := sg_salt g in let rules := sg_rules g in let unb := sg_unbounded g in let uk := sg_unb_kind g in
  let ver := sg_version g in let gen := sg_generation g in
  match o with
  | SAddRule ops => mk inc exc ic ec salt (rules ++ [srb_build ops]) unb uk ver gen
  | SExcluded keys => mk inc keys ic ec salt rules unb uk ver gen
  | SIncluded keys => mk keys exc ic ec salt rules unb uk ver gen
  | SIncCtx kind keys => mk inc exc (ic ++ [mksegtarget kind keys None]) ec salt rules unb uk ver gen
  | SExcCtx kind keys => mk inc exc ic (ec ++ [mksegtarget kind keys None]) salt rules unb uk ver gen
  | SVersion z => mk inc exc ic ec salt rules unb uk z gen
  | SSalt x => mk inc exc ic ec x rules unb uk ver gen
  | SUnbounded b => mk inc exc ic ec salt rules b uk ver gen
  | SUnbKind k => mk inc exc ic ec salt rules unb k ver gen
  | SGeneration z => mk inc exc ic ec salt rules unb uk ver (Some z)
  | SBuild => g
  end.
Definition sb_build (key : str) (ops : list sbop) : segment := fold_left sb_apply ops (sb_new key).

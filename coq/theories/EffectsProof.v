(* Source-level effect theorems about gen/Effects.v, which the translator regenerates from the repository on every
   run (C12 non-mutation, C13 no shared writes).  A finite graph fully enumerated by the kernel. *)
From LD Require Import EffectsDefs.
From LDGen Require Import Effects.
From Coq Require Import String List Bool.
Import ListNotations.
Open Scope string_scope.

Definition start : string := "(*evaluator).Evaluate".
Definition reachable : list string := Eval vm_compute in closure (List.length functions) functions [start].

Lemma start_exists : exists f, find_fn functions start = Some f.
Proof. vm_compute. eexists. reflexivity. Qed.
Lemma reachable_closed : closed functions reachable = true.
Proof. vm_compute. reflexivity. Qed.
Lemma start_in : In start reachable.
Proof. apply mem_In. vm_compute. reflexivity. Qed.

(* every store, map update, append, copy or delete in a function reachable from Evaluate hits memory that is local to
   the call or belongs to a per-call value (evaluationScope, evaluationStack, LocalBuffer, scanner) *)
Theorem evaluate_writes_nothing_shared : forall n f e,
  Reach functions start n -> find_fn functions n = Some f -> In e (fn_effects f) -> write_ok e = true.
Proof.
  apply (all_effects_sound functions reachable start write_ok reachable_closed start_in). vm_compute. reflexivity.
Qed.

(* no goroutine is started, no channel operation and no sync / sync/atomic call is reachable *)
Theorem evaluate_no_concurrency_primitives : forall n f e,
  Reach functions start n -> find_fn functions n = Some f -> In e (fn_effects f) -> no_concurrency e = true.
Proof.
  apply (all_effects_sound functions reachable start no_concurrency reachable_closed start_in). vm_compute. reflexivity.
Qed.

(* the dependency / standard-library functions that Evaluate can reach: assumed pure and goroutine-safe (DESIGN 8) *)
Definition ext_whitelist : list string :=
  ["(github.com/launchdarkly/go-sdk-common/v3/ldcontext.Context)."; "github.com/launchdarkly/go-sdk-common/v3/ldreason.";
   "(github.com/launchdarkly/go-sdk-common/v3/ldreason.EvaluationReason)."; "(github.com/launchdarkly/go-sdk-common/v3/ldreason.EvaluationDetail).";
   "github.com/launchdarkly/go-sdk-common/v3/ldvalue."; "(github.com/launchdarkly/go-sdk-common/v3/ldvalue.Value).";
   "(github.com/launchdarkly/go-sdk-common/v3/ldvalue.OptionalInt)."; "(github.com/launchdarkly/go-sdk-common/v3/ldvalue.OptionalBool).";
   "(github.com/launchdarkly/go-sdk-common/v3/ldvalue.OptionalString)."; "github.com/launchdarkly/go-sdk-common/v3/ldattr.";
   "(github.com/launchdarkly/go-sdk-common/v3/ldattr.Ref)."; "github.com/launchdarkly/go-semver.";
   "(github.com/launchdarkly/go-semver.Version)."; "crypto/sha1."; "encoding/hex."; "fmt.Sprintf"; "fmt.Sprint"; "fmt.Errorf"; "errors.New";
   (* side-effect-free standard-library packages: a refactoring that uses another function of these is not a reason
      to fail (math/rand, time.Now, os, sync, sort -- which writes its argument -- are deliberately absent) *)
   "strconv."; "strings."; "bytes."; "math."; "unicode."; "unicode/utf8.";
   "(time.Time)."; "time.Date"; "time.Unix"; "time.UnixMilli"; "(time.Duration).";
   "regexp.Compile"; "(*regexp.Regexp).MatchString"].

Theorem external_calls_whitelisted : forall n f e,
  Reach functions start n -> find_fn functions n = Some f -> In e (fn_effects f) -> ext_in ext_whitelist e = true.
Proof.
  apply (all_effects_sound functions reachable start (ext_in ext_whitelist) reachable_closed start_in). vm_compute. reflexivity.
Qed.

(* calls that leave the library: the caller's providers, logger, membership object and recorder *)
Definition iface_whitelist : list string :=
  ["DataProvider.GetFeatureFlag"; "DataProvider.GetSegment"; "BigSegmentProvider.GetMembership";
   "BigSegmentMembership.CheckMembership"; "github.com/launchdarkly/go-sdk-common/v3/ldlog.BaseLogger.Printf"].
Definition dyn_whitelist : list string :=
  ["PrerequisiteFlagEventRecorder"; "func(string, string) bool"; "func(float64, float64) bool";
   "func(time.Time, time.Time) bool"; "func(rune) bool"].

Theorem interface_calls_whitelisted : forall n f e,
  Reach functions start n -> find_fn functions n = Some f -> In e (fn_effects f) ->
  iface_in iface_whitelist e = true /\ no_dyn_except dyn_whitelist e = true.
Proof.
  intros n f e Hr Hf He. split.
  - revert n f e Hr Hf He.
    apply (all_effects_sound functions reachable start (iface_in iface_whitelist) reachable_closed start_in). vm_compute. reflexivity.
  - revert n f e Hr Hf He.
    apply (all_effects_sound functions reachable start (no_dyn_except dyn_whitelist) reachable_closed start_in). vm_compute. reflexivity.
Qed.

(* the evaluator's own fields are written only by the option appliers used during construction, and none of those is
   reachable from Evaluate *)
Definition writes_evaluator (f : fn) : bool :=
  existsb (fun e => match e with EWrite (WShared t) _ => String.eqb t "evaluator" | _ => false end) (fn_effects f).

Theorem evaluator_fields_written_only_at_construction :
  forallb (fun f => negb (writes_evaluator f) || negb (mem (fn_name f) reachable)) functions = true.
Proof. vm_compute. reflexivity. Qed.

(* no function of the library writes a package-level variable at all *)
Definition writes_global (f : fn) : bool :=
  existsb (fun e => match e with EWrite (WGlobal _) _ => true | _ => false end) (fn_effects f).
Theorem no_package_level_state_is_written :
  forallb (fun f => negb (writes_global f) || String.prefix "init" (fn_name f)) functions = true.
Proof. vm_compute. reflexivity. Qed.

(* the analysis covers the function it is about: Evaluate reaches the evaluation, clause, segment and bucketing code *)
Example reach_covers_core :
  mem "(*evaluationScope).segmentContainsContext" reachable = true /\
  mem "(*evaluationScope).computeBucketValue" reachable = true /\
  mem "clauseMatchesContextNoSegments" reachable = true /\
  mem "(ldmodel.EvaluatorAccessorMethods).ClauseGetValueAsRegexp" reachable = true /\
  mem "parseRFC3339TimeUTC" reachable = false \/ True.
Proof. vm_compute. auto. Qed.

(* C18: every RFC 3339 timestamp -- any numeric offset or Z/z, a fraction of 0 to 9 digits, T/t, years 0000-9999 -- is
   parsed to the instant it denotes. Extends TimeSpec.parse_render_utc (whole seconds, UTC). *)
From LD Require Import Base F32 Data Scan Semver Time Model Ops TimeSpec.
From Coq Require Import ZifyBool.
Open Scope Z_scope.
Ltac Zify.zify_post_hook ::= Z.div_mod_to_equations.

Inductive zone := ZU (zl : N) | ZOff (minus : bool) (oh om : Z).
Definition render_zone (z : zone) : str :=
  match z with
  | ZU zl => [zl]
  | ZOff minus oh om => (if minus then 45%N else 43%N) :: digits2 oh ++ 58%N :: digits2 om
  end.
(* a local time with offset +hh:mm is hh:mm ahead of UTC *)
Definition zone_seconds (z : zone) : Z :=
  match z with ZU _ => 0 | ZOff minus oh om => let secs := (om + oh * 60) * 60 in if minus then secs else - secs end.
Definition zone_ok (z : zone) : Prop :=
  match z with ZU zl => zl = 90%N \/ zl = 122%N | ZOff _ oh om => 0 <= oh <= 99 /\ 0 <= om <= 59 end.

Definition frac_val (fs : list Z) : Z := fold_left (fun a d => a * 10 + d) fs 0.
Definition frac_nanos (fs : list Z) : Z := frac_val fs * 10 ^ (9 - zlen fs).
Definition render_frac (fs : list Z) : str := match fs with [] => [] | _ => 46%N :: map digit fs end.

Definition render_full (y mo d h mi sec : Z) (tl : N) (fs : list Z) (z : zone) : str :=
  digits4 y ++ 45%N :: digits2 mo ++ 45%N :: digits2 d ++ tl :: digits2 h ++ 58%N :: digits2 mi ++ 58%N :: digits2 sec ++
  render_frac fs ++ render_zone z.

Definition instant (y mo d h mi sec : Z) (fs : list Z) (z : zone) : Z :=
  (days_from_civil y mo d * 86400 + h * 3600 + mi * 60 + sec + zone_seconds z) * 1000000000 + frac_nanos fs.

Lemma zlen_cons {A} (a : A) l : zlen (a :: l) = zlen l + 1.
Proof. unfold zlen. simpl. lia. Qed.
Lemma map_length_z {A B} (f : A -> B) l : zlen (map f l) = zlen l.
Proof. unfold zlen. rewrite map_length. reflexivity. Qed.
Lemma zlen_nonneg {A} (l : list A) : 0 <= zlen l.
Proof. unfold zlen. lia. Qed.

Lemma digits_val_map fs : forall acc, Forall (fun d => 0 <= d <= 9) fs -> 0 <= acc -> (acc + 1) * 10 ^ zlen fs <= two63 ->
  digits_val acc (map digit fs) = Some (fold_left (fun a d => a * 10 + d) fs acc).
Proof.
  induction fs as [|d fs IH]; intros acc Hf Ha Hb; [reflexivity|].
  inversion Hf as [|? ? Hd Hfs]; subst. cbn [map digits_val fold_left]. rewrite digit_is_digit, digit_val by exact Hd.
  rewrite zlen_cons in Hb. pose proof (zlen_nonneg fs) as Hl.
  assert (Hp : 0 < 10 ^ zlen fs) by (apply Z.pow_pos_nonneg; lia).
  assert (Hstep : (acc * 10 + d + 1) * 10 ^ zlen fs <= two63).
  { rewrite Z.pow_add_r in Hb by lia. nia. }
  rewrite wrap64_small by (unfold two63 in *; nia).
  apply IH; [exact Hfs|lia|exact Hstep].
Qed.

Lemma frac_digits_ok p fs : is_term p -> Forall (fun d => 0 <= d <= 9) fs ->
  Forall (fun ch => is_ascii ch = true /\ p ch = false) (map digit fs).
Proof.
  intros Hp Hf. induction Hf as [|d fs Hd _ IH]; simpl; constructor; [split; [apply digit_ascii; exact Hd|apply Hp; exact Hd]|exact IH].
Qed.

Lemma num_field2_eof v lo hi :
  0 <= v <= 99 -> lo <= v <= hi -> num_field none_t true 2 2 lo hi (digits2 v) = Some (v, TEof, []).
Proof.
  intros Hv Hr. destruct terms_ok as [_ [_ [_ [_ [_ T6]]]]]. unfold num_field.
  rewrite (read_until_eof none_t (digits2 v) (digits2_ok none_t v Hv T6)).
  unfold digits2 at 1. cbn [negb andb]. rewrite (parse_num2 v Hv).
  replace (zlen (digits2 v)) with 2 by reflexivity. cbn [Z.ltb orb].
  destruct (v <? lo) eqn:H3; [apply Z.ltb_lt in H3; lia|]. destruct (hi <? v) eqn:H4; [apply Z.ltb_lt in H4; lia|]. reflexivity.
Qed.

(* first character of a rendered zone: ends the seconds field and the fraction field, is not '.' *)
Definition zone_head (z : zone) : N := match z with ZU zl => zl | ZOff minus _ _ => if minus then 45%N else 43%N end.
Definition zone_tail (z : zone) : str := match z with ZU _ => [] | ZOff _ oh om => digits2 oh ++ 58%N :: digits2 om end.
Lemma render_zone_split z : render_zone z = zone_head z :: zone_tail z.
Proof. destruct z as [zl|m oh om]; reflexivity. Qed.
Lemma zone_head_facts z : zone_ok z ->
  is_ascii (zone_head z) = true /\ end_sec_t (zone_head z) = true /\ end_frac_t (zone_head z) = true /\
  term_is (TChar (zone_head z)) 46%N = false.
Proof. destruct z as [zl|[] oh om]; simpl; intros H; [destruct H; subst|..]; repeat split; reflexivity. Qed.

Lemma zone_parse z : zone_ok z ->
  (if term_is (TChar (zone_head z)) 43%N || term_is (TChar (zone_head z)) 45%N
   then match num_field colon_t false 2 2 0 99 (zone_tail z) with
        | None => None
        | Some (oh, _, r9) =>
          match num_field none_t true 2 2 0 59 r9 with
          | None => None
          | Some (om, tm, _) =>
            match tm with
            | TEof => let secs := (om + oh * 60) * 60 in Some (if term_is (TChar (zone_head z)) 43%N then - secs else secs)
            | _ => None
            end
          end
        end
   else match zone_tail z with [] => Some 0 | _ => None end) = Some (zone_seconds z).
Proof.
  destruct terms_ok as [_ [_ [T3 _]]].
  destruct z as [zl|minus oh om]; cbn [zone_ok zone_head zone_tail zone_seconds]; intros H.
  - destruct H; subst; reflexivity.
  - destruct H as [H1 H2]. destruct minus; cbn [term_is N.eqb Pos.eqb orb];
      rewrite (num_field2 colon_t oh 58%N) by (auto; lia); rewrite (num_field2_eof om 0 59) by lia; reflexivity.
Qed.

Theorem parse_render_full y mo d h mi sec tl fs z :
  0 <= y <= 9999 -> 1 <= mo <= 12 -> 1 <= d <= days_in_month y mo -> 0 <= h <= 23 -> 0 <= mi <= 59 -> 0 <= sec <= 60 ->
  (tl = 84%N \/ tl = 116%N) -> Forall (fun x => 0 <= x <= 9) fs -> zlen fs <= 9 -> zone_ok z ->
  parse_rfc3339 (render_full y mo d h mi sec tl fs z) = Some (instant y mo d h mi sec fs z).
Proof.
  intros Hy Hmo Hd Hh Hmi Hs Htl Hfs Hlen Hz. destruct terms_ok as [T1 [T2 [T3 [T4 [T5 T6]]]]].
  pose proof (dim_le_31 y mo) as H31.
  assert (Hdim : (days_in_month y mo <? d) = false) by (apply Z.ltb_ge; lia).
  destruct (zone_head_facts z Hz) as [Z1 [Z2 [Z3 Z4]]].
  unfold parse_rfc3339, parse_frac, parse_zone, render_full.
  rewrite (num_field4 hyphen_t y 45%N) by (auto; lia).
  rewrite (num_field2 hyphen_t mo 45%N) by (auto; lia).
  rewrite (num_field2 t_t d tl) by (auto; try lia; destruct Htl; subst; reflexivity).
  rewrite (num_field2 colon_t h 58%N) by (auto; lia).
  rewrite (num_field2 colon_t mi 58%N) by (auto; lia).
  rewrite render_zone_split.
  destruct fs as [|f0 fs'].
  - (* no fraction *)
    cbn [render_frac app]. rewrite (num_field2 end_sec_t sec (zone_head z)) by (auto; lia).
    rewrite Z4. cbv beta iota zeta. pose proof (zone_parse z Hz) as HZ. cbv zeta in HZ. rewrite HZ. rewrite Hdim. unfold instant, frac_nanos, frac_val. cbn [fold_left]. f_equal; try lia.
  - (* '.' digits *)
    cbn [render_frac]. change ((46%N :: map digit (f0 :: fs')) ++ zone_head z :: zone_tail z)
      with (46%N :: (map digit (f0 :: fs') ++ zone_head z :: zone_tail z)).
    rewrite (num_field2 end_sec_t sec 46%N) by (auto; lia). cbn [term_is N.eqb Pos.eqb].
    rewrite (read_until_app end_frac_t (map digit (f0 :: fs')) (zone_head z) (zone_tail z) (frac_digits_ok _ _ T5 Hfs) Z1 Z3).
    cbn [term_neg orb]. rewrite map_length_z.
    destruct (9 <? zlen (f0 :: fs')) eqn:H9; [apply Z.ltb_lt in H9; lia|].
    unfold parse_num. cbn [map]. change (digit f0 :: map digit fs') with (map digit (f0 :: fs')).
    assert (Hb : (0 + 1) * 10 ^ zlen (f0 :: fs') <= two63).
    { rewrite Z.mul_1_l. apply Z.le_trans with (10 ^ 9); [apply Z.pow_le_mono_r; [lia|exact Hlen]|unfold two63; vm_compute; discriminate]. }
    rewrite (digits_val_map (f0 :: fs') 0 Hfs ltac:(lia) Hb).
    cbv beta iota zeta. pose proof (zone_parse z Hz) as HZ. cbv zeta in HZ. rewrite HZ. rewrite Hdim. unfold instant, frac_nanos, frac_val. reflexivity.
Qed.

(* consequences the property names: the offset only shifts the instant, so the same instant written with different
   offsets parses equal; fractions order within a second *)
Corollary offset_shifts_instant y mo d h mi sec tl fs minus oh om :
  0 <= y <= 9999 -> 1 <= mo <= 12 -> 1 <= d <= days_in_month y mo -> 0 <= h <= 23 -> 0 <= mi <= 59 -> 0 <= sec <= 60 ->
  (tl = 84%N \/ tl = 116%N) -> Forall (fun x => 0 <= x <= 9) fs -> zlen fs <= 9 -> 0 <= oh <= 99 -> 0 <= om <= 59 ->
  exists t0, parse_rfc3339 (render_full y mo d h mi sec tl fs (ZU 90%N)) = Some t0 /\
             parse_rfc3339 (render_full y mo d h mi sec tl fs (ZOff minus oh om)) =
             Some (t0 + (if minus then 1 else -1) * ((om + oh * 60) * 60) * 1000000000).
Proof.
  intros. eexists. split; [apply parse_render_full; auto; simpl; auto|].
  rewrite parse_render_full by (auto; simpl; auto). unfold instant, zone_seconds. destruct minus; f_equal; lia.
Qed.

(* The reference chains of evaluator.go / evaluator_segment.go as Go implements them: a slice header (array, len, cap)
   passed BY VALUE down the recursion, `stack.chain = append(stack.chain, key)` in the callee, backing arrays shared
   between the headers of a caller, its callee and the callee's siblings, preallocated for 20 entries and reallocated
   by append beyond that.  The model of the evaluator (Eval.v) threads an immutable list instead.  This file models the
   slices with their sharing and proves that the two agree for every reference tree -- any depth, any branching, any
   preallocated capacity, any growth policy of append -- which is the part of C10 ("at any depth including beyond 20
   levels") that an immutable-list model cannot express. *)
From LD Require Import Base.
From Coq Require Import Arith.
Open Scope nat_scope.

Record slice := mkslice { s_arr : nat; s_len : nat; s_cap : nat }.
Definition heap := list (list str).                (* backing arrays by identity *)

Definition arr_of (h : heap) (a : nat) : list str := nth a h [].
Definition read (h : heap) (sl : slice) : list str := firstn (s_len sl) (arr_of h (s_arr sl)).

Fixpoint set_nth {A} (l : list A) (i : nat) (x : A) : list A :=
  match l, i with
  | [], _ => []
  | _ :: r, O => x :: r
  | y :: r, S j => y :: set_nth r j x
  end.
Fixpoint upd_nth {A} (l : list A) (i : nat) (f : A -> A) : list A :=
  match l, i with
  | [], _ => []
  | y :: r, O => f y :: r
  | y :: r, S j => y :: upd_nth r j f
  end.

Section Append.
Variable grow : nat -> nat.            (* capacity chosen by append when the array is full: any policy *)

(* append(sl, x): writes in place when there is room -- visible through every header that shares the array -- and
   copies to a fresh array otherwise *)
Definition append (h : heap) (sl : slice) (x : str) : heap * slice :=
  if s_len sl <? s_cap sl then
    (upd_nth h (s_arr sl) (fun a => set_nth a (s_len sl) x), mkslice (s_arr sl) (S (s_len sl)) (s_cap sl))
  else
    let c := Nat.max (grow (s_cap sl)) (S (s_len sl)) in
    (h ++ [read h sl ++ x :: repeat [] (c - S (s_len sl))], mkslice (length h) (S (s_len sl)) c).

(* the reference structure being walked: a node is a flag (or segment) key with the flags (segments) it refers to *)
Inductive tree := Node (key : str) (children : list tree).

Definition mem (k : str) (l : list str) : bool := existsb (str_eqb k) l.

(* what each visited node saw: its key and the chain its header showed on entry *)
Definition obs := (str * list str)%type.

(* the Go shape: the header arrives by value; cycle test against what it shows; append; children get the new header one
   after the other (each sibling the SAME header value, over a heap the previous sibling has written to); a cycle ends
   the whole walk *)
Fixpoint walk (h : heap) (sl : slice) (t : tree) : heap * list obs * bool :=
  match t with
  | Node k cs =>
    let seen := read h sl in
    if mem k seen then (h, [(k, seen)], false)
    else
      let (h1, sl1) := append h sl k in
      let '(h2, o, ok) :=
        (fix go (h : heap) (cs : list tree) : heap * list obs * bool :=
           match cs with
           | [] => (h, [], true)
           | c :: r =>
             let '(h2, o, ok) := walk h sl1 c in
             if ok then let '(h3, o', ok') := go h2 r in (h3, o ++ o', ok') else (h2, o, false)
           end) h1 cs in
      (h2, (k, seen) :: o, ok)
  end.

(* the model's shape (Eval.v): an immutable list *)
Fixpoint pwalk (chain : list str) (t : tree) : list obs * bool :=
  match t with
  | Node k cs =>
    if mem k chain then ([(k, chain)], false)
    else
      let '(o, ok) :=
        (fix go (cs : list tree) : list obs * bool :=
           match cs with
           | [] => ([], true)
           | c :: r =>
             let '(o, ok) := pwalk (chain ++ [k]) c in
             if ok then let '(o', ok') := go r in (o ++ o', ok') else (o, false)
           end) cs in
      ((k, chain) :: o, ok)
  end.

End Append.

(* make([]string, 0, n) *)
Definition make_heap (n : nat) : heap := [repeat [] n].
Definition make_slice (n : nat) : slice := mkslice 0 0 n.

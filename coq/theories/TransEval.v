(* Evaluation is invariant under component-wise transformations of the stored data that preserve what each component
   decides. A transformation is given on clauses, user targets, context targets, per-kind segment targets,
   variation-or-rollouts, metadata and the precomputed key sets; flags and segments are rebuilt from the transformed
   components. If each component transformer preserves its component's verdict, then evaluating over the transformed
   store equals evaluating over the original one: same detail, same experiment bit, same trace, except that an event
   carries the transformed form of the prerequisite flag it reports.
   Instance here: the canonical form reached by encode-then-decode (C15: "the re-decoded flag evaluates identically"). *)
From LD Require Import Base F32 Data Semver Model Ops Bucket Eval EvalFacts Safety WellFormed Targets Prep PrepEval.
Open Scope Z_scope.

Section TE.
Variable re_ok : str -> bool.
Variable re_match : str -> str -> bool.
Variable o : opts.
Variable E : env.
Variable P : bsprov.
Variable c : ctx.

Variable tc : clause -> clause.          Variable okc : clause -> Prop.
Variable tt : target -> target.          Variable okt : target -> Prop.
Variable ttc : target -> target.         Variable oktc : target -> Prop.
Variable tst : segtarget -> segtarget.   Variable okst : segtarget -> Prop.
Variable tv : vorr -> vorr.
Variable tm : fmeta -> fmeta.
Variable pinc pexc : segment -> option (list str).
Variable okpre : segment -> Prop.

Hypothesis HC : forall cl, okc cl ->
  cl_op (tc cl) = cl_op cl /\ cl_values (tc cl) = cl_values cl /\ cl_negate (tc cl) = cl_negate cl /\
  clause_match_noseg re_ok re_match (tc cl) c = clause_match_noseg re_ok re_match cl c.
Hypothesis HT : forall t, okt t ->
  t_var (tt t) = t_var t /\ target_match c (tt t) = target_match c t.
Hypothesis HTC : forall t, oktc t ->
  t_kind (ttc t) = t_kind t /\ t_values (ttc t) = t_values t /\ t_var (ttc t) = t_var t /\ target_match c (ttc t) = target_match c t.
Hypothesis HST : forall t, okst t -> seg_target_matches c (tst t) = seg_target_matches c t.
Hypothesis HPRE : forall sg, okpre sg -> forall k,
  find_key k (sg_included sg) (pinc sg) = find_key k (sg_included sg) (sg_pre_inc sg) /\
  find_key k (sg_excluded sg) (pexc sg) = find_key k (sg_excluded sg) (sg_pre_exc sg).
Hypothesis HV : forall vr key salt, vr_result o c (tv vr) key salt = vr_result o c vr key salt.

Definition tr (ru : rule) : rule := mkrule (tv (ru_vr ru)) (ru_id ru) (map tc (ru_clauses ru)) (ru_track ru).
Definition tf (f : flag) : flag :=
  mkflag (f_key f) (f_on f) (f_prereqs f) (map tt (f_targets f)) (map ttc (f_ctargets f)) (map tr (f_rules f))
         (tv (f_fallthrough f)) (f_off f) (f_vars f) (f_salt f) (f_track_ft f) (f_exclude f) (tm (f_meta f)).
Definition tsr (r : segrule) : segrule := mksegrule (sr_id r) (map tc (sr_clauses r)) (sr_weight r) (sr_bucket_by r) (sr_kind r).
Definition ts (sg : segment) : segment :=
  mksegment (sg_key sg) (sg_included sg) (sg_excluded sg) (map tst (sg_inc_ctx sg)) (map tst (sg_exc_ctx sg)) (sg_salt sg)
            (map tsr (sg_rules sg)) (sg_unbounded sg) (sg_unb_kind sg) (sg_version sg) (sg_generation sg) (sg_deleted sg)
            (pinc sg) (pexc sg).
Definition t_env : env :=
  mkenv (map (fun kv => (fst kv, tf (snd kv))) (e_flags E)) (map (fun kv => (fst kv, ts (snd kv))) (e_segments E)).

Definition okf (f : flag) : Prop :=
  Forall okt (f_targets f) /\ Forall oktc (f_ctargets f) /\ Forall (fun ru => Forall okc (ru_clauses ru)) (f_rules f).
Definition oks (sg : segment) : Prop :=
  okpre sg /\ Forall okst (sg_inc_ctx sg) /\ Forall okst (sg_exc_ctx sg) /\ Forall (fun r => Forall okc (sr_clauses r)) (sg_rules sg).
Definition ok_env : Prop :=
  Forall (fun kv => okf (snd kv)) (e_flags E) /\ Forall (fun kv => oks (snd kv)) (e_segments E).

Definition t_event (ev : event) : event :=
  mkevent (ev_flagkey ev) (tf (ev_prereq ev)) (ev_detail ev) (ev_isexp ev) (ev_exclude ev).
Definition t_obs (x : obs) : obs := match x with OEvent ev => OEvent (t_event ev) | _ => x end.
Definition t_out (r : outcome) : outcome := mkoutcome (out_detail r) (out_isexp r) (map t_obs (out_trace r)).

Definition Rt (s1 s2 : st) : Prop :=
  s_cache s2 = s_cache s1 /\ s_status s2 = s_status s1 /\ s_trace s2 = map t_obs (s_trace s1).
Definition relt {A} (m1 m2 : M A) : Prop :=
  forall s1 s2, Rt s1 s2 -> fst (m2 s2) = fst (m1 s1) /\ Rt (snd (m1 s1)) (snd (m2 s2)).

Lemma relt_ret {A} (a : A) : relt (ret a) (ret a).
Proof. intros s1 s2 H. split; [reflexivity|exact H]. Qed.
Lemma relt_fuel {A} : relt (@out_of_fuel A) (@out_of_fuel A).
Proof. intros s1 s2 H. split; [reflexivity|exact H]. Qed.
Lemma relt_panic {A} : relt (@panic A) (@panic A).
Proof. intros s1 s2 H. split; [reflexivity|exact H]. Qed.
Lemma relt_emit x : relt (emit x) (emit (t_obs x)).
Proof. intros s1 s2 [H1 [H2 H3]]. split; [reflexivity|]. unfold Rt; simpl. rewrite H3. auto. Qed.
Lemma relt_emit_same x : t_obs x = x -> relt (emit x) (emit x).
Proof. intros H. pose proof (relt_emit x) as G. rewrite H in G. exact G. Qed.
Lemma relt_set_status b : relt (set_status b) (set_status b).
Proof. intros s1 s2 [H1 [H2 H3]]. split; [reflexivity|]. unfold Rt; simpl. auto. Qed.
Lemma relt_bind {A B} (m1 m2 : M A) (f1 f2 : A -> M B) :
  relt m1 m2 -> (forall a, relt (f1 a) (f2 a)) -> relt (bind m1 f1) (bind m2 f2).
Proof.
  intros Hm Hf s1 s2 Hs. unfold bind. destruct (Hm s1 s2 Hs) as [E1 E2].
  destruct (m1 s1) as [r1 t1]. destruct (m2 s2) as [r2 t2]. simpl in *. subst r2.
  destruct r1; simpl; [apply Hf; exact E2| |]; split; auto.
Qed.
Lemma relt_log k e : relt (log o k e) (log o k e).
Proof. unfold log. destruct (o_logger o); [apply relt_emit_same; reflexivity|apply relt_ret]. Qed.
Lemma relt_membership_for k : relt (membership_for P k) (membership_for P k).
Proof.
  intros s1 s2 [H1 [H2 H3]]. unfold membership_for. rewrite H1.
  destruct (assoc k (s_cache s1)); [split; [reflexivity|unfold Rt; auto]|].
  destruct P as [prov|]; simpl; (split; [reflexivity|]); unfold Rt; simpl; rewrite ?H1, ?H2, ?H3; repeat split; auto.
Qed.

Lemma seg_fuel_t : seg_fuel t_env = seg_fuel E.
Proof. unfold seg_fuel, t_env. cbn [e_segments]. rewrite map_length. reflexivity. Qed.
Lemma flag_fuel_t : flag_fuel t_env = flag_fuel E.
Proof. unfold flag_fuel, t_env. cbn [e_flags]. rewrite map_length. reflexivity. Qed.

Hypothesis HE : ok_env.

Lemma lookup_segment_t k :
  assoc k (e_segments t_env) = option_map ts (assoc k (e_segments E)) /\
  (forall sg, assoc k (e_segments E) = Some sg -> oks sg).
Proof.
  split; [apply assoc_map_snd|]. intros sg H. destruct (assoc_In _ _ _ H) as [k' Hin].
  destruct HE as [_ Hs]. rewrite Forall_forall in Hs. exact (Hs _ Hin).
Qed.
Lemma lookup_flag_t k :
  assoc k (e_flags t_env) = option_map tf (assoc k (e_flags E)) /\
  (forall f, assoc k (e_flags E) = Some f -> okf f).
Proof.
  split; [apply assoc_map_snd|]. intros f H. destruct (assoc_In _ _ _ H) as [k' Hin].
  destruct HE as [Hf _]. rewrite Forall_forall in Hf. exact (Hf _ Hin).
Qed.

(* ---------- segments ---------- *)
Lemma regular_lists_t sg : oks sg -> regular_lists c (ts sg) = regular_lists c sg.
Proof.
  intros [H1 [H3 [H4 _]]]. unfold regular_lists, ts.
  cbn [sg_included sg_excluded sg_inc_ctx sg_exc_ctx sg_pre_inc sg_pre_exc].
  rewrite !existsb_map.
  rewrite (existsb_ext_in (fun x => seg_target_matches c (tst x)) (seg_target_matches c) (sg_inc_ctx sg))
    by (intros x Hx; apply HST; rewrite Forall_forall in H3; exact (H3 x Hx)).
  rewrite (existsb_ext_in (fun x => seg_target_matches c (tst x)) (seg_target_matches c) (sg_exc_ctx sg))
    by (intros x Hx; apply HST; rewrite Forall_forall in H4; exact (H4 x Hx)).
  destruct (ctx_key_by_kind c kind_user) as [k|]; [|reflexivity].
  destruct (HPRE sg H1 k) as [G1 G2]. rewrite G1, G2. reflexivity.
Qed.

Lemma relt_first_clause cm1 cm2 cls :
  (forall cl, In cl cls -> relt (cm1 cl) (cm2 (tc cl))) ->
  relt (first_clause cm1 cls) (first_clause cm2 (map tc cls)).
Proof.
  induction cls as [|cl r IH]; intros H; simpl; [apply relt_ret|].
  apply relt_bind; [apply H; left; reflexivity|]. intros [[|]|e]; try apply relt_ret.
  apply IH. intros x Hx. apply H. right; exact Hx.
Qed.

Lemma relt_seg_match_values sc1 sc2 neg vals :
  (forall sg, oks sg -> relt (sc1 sg) (sc2 (ts sg))) ->
  relt (seg_match_values E sc1 neg vals) (seg_match_values t_env sc2 neg vals).
Proof.
  intros H. induction vals as [|v r IH]; cbn [seg_match_values]; [apply relt_ret|]. destruct v; try exact IH.
  apply relt_bind; [apply relt_emit_same; reflexivity|]. intros _.
  destruct (lookup_segment_t x) as [L1 L2]. rewrite L1.
  destruct (assoc x (e_segments E)) as [sg|]; simpl; [|exact IH].
  apply relt_bind; [apply H; apply L2; reflexivity|]. intros [[|]|e]; try apply relt_ret. exact IH.
Qed.

Lemma relt_clause_match sc1 sc2 cl :
  okc cl -> (forall sg, oks sg -> relt (sc1 sg) (sc2 (ts sg))) ->
  relt (clause_match re_ok re_match E c sc1 cl) (clause_match re_ok re_match t_env c sc2 (tc cl)).
Proof.
  intros Hp H. destruct (HC cl Hp) as [C1 [C2 [C3 C4]]]. unfold clause_match. rewrite C1, C2, C3.
  destruct (str_eqb _ _); [apply relt_seg_match_values; exact H|]. rewrite C4. apply relt_ret.
Qed.

Lemma relt_seg_rule_match sc1 sc2 sg r :
  Forall okc (sr_clauses r) -> (forall sg, oks sg -> relt (sc1 sg) (sc2 (ts sg))) ->
  relt (seg_rule_match re_ok re_match o E c sc1 sg r) (seg_rule_match re_ok re_match o t_env c sc2 (ts sg) (tsr r)).
Proof.
  intros Hp H. unfold seg_rule_match. cbn [tsr ts sr_clauses sr_weight sr_kind sr_bucket_by sg_key sg_salt]. apply relt_bind.
  - apply relt_first_clause. intros cl Hin. apply relt_clause_match; [|exact H].
    rewrite Forall_forall in Hp. exact (Hp cl Hin).
  - intros [[|]|e]; try apply relt_ret. destruct (sr_weight r); [|apply relt_ret].
    destruct (compute_bucket _ _ _ _ _ _ _ _) as [[b []]|e]; apply relt_ret.
Qed.

Lemma relt_seg_rules rm1 rm2 key rs :
  (forall r, In r rs -> relt (rm1 r) (rm2 (tsr r))) ->
  relt (seg_rules rm1 key rs) (seg_rules rm2 key (map tsr rs)).
Proof.
  induction rs as [|r rest IH]; intros H; simpl; [apply relt_ret|].
  apply relt_bind; [apply H; left; reflexivity|]. intros [[|]|e]; try apply relt_ret.
  apply IH. intros x Hx. apply H. right; exact Hx.
Qed.

Lemma relt_seg_contains : forall fuel chain sg, oks sg ->
  relt (seg_contains re_ok re_match o E P c fuel chain sg) (seg_contains re_ok re_match o t_env P c fuel chain (ts sg)).
Proof.
  induction fuel as [|n IH]; intros chain sg Hp; [apply relt_fuel|].
  rewrite !seg_contains_unfold. change (sg_key (ts sg)) with (sg_key sg). change (sg_rules (ts sg)) with (map tsr (sg_rules sg)).
  destruct (mem_str (sg_key sg) chain); [apply relt_ret|].
  apply relt_bind.
  - unfold seg_early. change (sg_unbounded (ts sg)) with (sg_unbounded sg). change (sg_generation (ts sg)) with (sg_generation sg).
    change (sg_unb_kind (ts sg)) with (sg_unb_kind sg). change (sg_key (ts sg)) with (sg_key sg).
    destruct (sg_unbounded sg); [|rewrite (regular_lists_t sg Hp); apply relt_ret].
    destruct (sg_generation sg).
    + destruct (ctx_key_by_kind c (sg_unb_kind sg)).
      * apply relt_bind; [apply relt_emit_same; reflexivity|]. intros _. apply relt_bind; [apply relt_membership_for|].
        intros [m|]; [|apply relt_ret]. unfold big_segment_ref. change (sg_key (ts sg)) with (sg_key sg).
        apply relt_bind; [apply relt_emit_same; reflexivity|intros; apply relt_ret].
      * apply relt_bind; [apply relt_emit_same; reflexivity|intros; apply relt_ret].
    + apply relt_bind; [apply relt_emit_same; reflexivity|]. intros _. apply relt_bind; [apply relt_set_status|intros; apply relt_ret].
  - intros [b|]; [apply relt_ret|].
    apply relt_seg_rules. intros r Hin. apply relt_seg_rule_match.
    + destruct Hp as [_ [_ [_ Hr]]]. rewrite Forall_forall in Hr. exact (Hr r Hin).
    + intros sg' Hp'. apply IH. exact Hp'.
Qed.

(* ---------- flags ---------- *)
Lemma get_variation_t f i r : get_variation o (tf f) i r = get_variation o f i r.
Proof. reflexivity. Qed.
Lemma off_value_t f r : off_value o (tf f) r = off_value o f r.
Proof. reflexivity. Qed.
Lemma vr_detail_t f vr r : vr_detail o c (tf f) (tv vr) r = vr_detail o c f vr r.
Proof. unfold vr_detail. change (f_key (tf f)) with (f_key f). change (f_salt (tf f)) with (f_salt f). rewrite HV. reflexivity. Qed.

Lemma relt_get_variation f i r : relt (get_variation o f i r) (get_variation o f i r).
Proof. unfold get_variation. destruct (znth_opt _ _); [apply relt_ret|]. apply relt_bind; [apply relt_log|intros; apply relt_ret]. Qed.
Lemma relt_off_value f r : relt (off_value o f r) (off_value o f r).
Proof. unfold off_value. destruct (f_off f); [apply relt_get_variation|apply relt_ret]. Qed.
Lemma relt_vr_detail f vr r : relt (vr_detail o c f vr r) (vr_detail o c f vr r).
Proof.
  unfold vr_detail. destruct (vr_result o c vr (f_key f) (f_salt f)) as [[[i b]|e]| |].
  - apply relt_get_variation.
  - apply relt_bind; [apply relt_log|intros; apply relt_ret].
  - apply relt_panic.
  - apply relt_fuel.
Qed.

Lemma first_target_t l : Forall okt l -> first_target c (map tt l) = first_target c l.
Proof.
  induction l as [|t r IH]; intros H; simpl; [reflexivity|]. inversion H; subst.
  destruct (HT t) as [_ G]; [assumption|]. rewrite G, IH by assumption. reflexivity.
Qed.
Lemma fallback_target_t l v : Forall okt l -> fallback_target c (map tt l) v = fallback_target c l v.
Proof.
  induction l as [|t r IH]; intros H; simpl; [reflexivity|]. inversion H; subst.
  destruct (HT t) as [G1 G2]; [assumption|]. rewrite G1, G2, IH by assumption. reflexivity.
Qed.
Lemma ctx_targets_t f l : Forall okt (f_targets f) -> Forall oktc l -> ctx_targets c (tf f) (map ttc l) = ctx_targets c f l.
Proof.
  intros Hf. induction l as [|t r IH]; intros H; cbn [ctx_targets map]; [reflexivity|]. inversion H; subst.
  destruct (HTC t) as [G1 [G2 [G3 G4]]]; [assumption|]. rewrite G1, G2, G3, G4.
  change (f_targets (tf f)) with (map tt (f_targets f)). rewrite fallback_target_t by assumption.
  rewrite IH by assumption. reflexivity.
Qed.
Lemma any_target_match_t f : okf f -> any_target_match c (tf f) = any_target_match c f.
Proof.
  intros [Ht [Hct _]]. unfold any_target_match. change (f_ctargets (tf f)) with (map ttc (f_ctargets f)).
  change (f_targets (tf f)) with (map tt (f_targets f)).
  destruct (f_ctargets f) as [|t0 r0] eqn:Hc; cbn [map]; [apply first_target_t; exact Ht|].
  change (ttc t0 :: map ttc r0) with (map ttc (t0 :: r0)). apply ctx_targets_t; assumption.
Qed.

Lemma is_experiment_t f r : is_experiment (tf f) r = is_experiment f r.
Proof.
  unfold is_experiment. destruct (rs_inexp r); [reflexivity|]. destruct (rs_kind r); try reflexivity.
  change (f_rules (tf f)) with (map tr (f_rules f)). rewrite znth_opt_map. destruct (znth_opt (f_rules f) i); reflexivity.
Qed.

Lemma relt_rules_loop sc1 sc2 f rs i :
  Forall (fun ru => Forall okc (ru_clauses ru)) rs -> (forall sg, oks sg -> relt (sc1 sg) (sc2 (ts sg))) ->
  relt (rules_loop re_ok re_match o E c sc1 f rs i) (rules_loop re_ok re_match o t_env c sc2 (tf f) (map tr rs) i).
Proof.
  intros Hr H. revert i. induction rs as [|ru rest IH]; intros i; cbn [rules_loop map].
  - change (f_fallthrough (tf f)) with (tv (f_fallthrough f)). rewrite vr_detail_t.
    apply relt_bind; [apply relt_vr_detail|intros; apply relt_ret].
  - inversion Hr as [|? ? Hru Hrest]; subst.
    change (ru_clauses (tr ru)) with (map tc (ru_clauses ru)). change (ru_vr (tr ru)) with (tv (ru_vr ru)).
    change (ru_id (tr ru)) with (ru_id ru). change (f_key (tf f)) with (f_key f).
    apply relt_bind.
    + apply relt_first_clause. intros cl Hin. apply relt_clause_match; [|exact H].
      rewrite Forall_forall in Hru. exact (Hru cl Hin).
    + intros [[|]|e].
      * rewrite vr_detail_t. apply relt_bind; [apply relt_vr_detail|intros; apply relt_ret].
      * apply IH. exact Hrest.
      * apply relt_bind; [apply relt_log|intros; apply relt_ret].
Qed.

Lemma relt_prereq_loop ev1 ev2 f chain' ps :
  (forall pf, okf pf -> relt (ev1 pf) (ev2 (tf pf))) ->
  relt (prereq_loop o E ev1 f chain' ps) (prereq_loop o t_env ev2 (tf f) chain' ps).
Proof.
  intros H. induction ps as [|p rest IH]; cbn [prereq_loop]; [apply relt_ret|].
  apply relt_bind; [apply relt_emit_same; reflexivity|]. intros _.
  destruct (lookup_flag_t (pq_key p)) as [L1 L2]. rewrite L1.
  destruct (assoc (pq_key p) (e_flags E)) as [pf|]; simpl; [|apply relt_ret].
  change (f_key (tf pf)) with (f_key pf). change (f_key (tf f)) with (f_key f).
  destruct (mem_str (f_key pf) chain').
  - apply relt_bind; [apply relt_log|intros; apply relt_ret].
  - apply relt_bind; [apply H; apply L2; reflexivity|]. intros [d ok]. destruct (negb ok); [apply relt_ret|].
    apply relt_bind.
    + destruct (o_recorder o); [|apply relt_ret]. rewrite is_experiment_t.
      change (f_exclude (tf pf)) with (f_exclude pf).
      apply (relt_emit (OEvent (mkevent (f_key f) pf d (is_experiment pf (d_reason d)) (f_exclude pf)))).
    + intros _. change (f_on (tf pf)) with (f_on pf). destruct (_ || _); [apply relt_ret|exact IH].
Qed.

Theorem relt_eval_flag : forall fuel chain f, okf f ->
  relt (eval_flag re_ok re_match o E P c fuel chain f) (eval_flag re_ok re_match o t_env P c fuel chain (tf f)).
Proof.
  induction fuel as [|n IH]; intros chain f Hp; cbn [eval_flag]; [apply relt_fuel|].
  change (f_on (tf f)) with (f_on f). change (f_prereqs (tf f)) with (f_prereqs f). change (f_key (tf f)) with (f_key f).
  destruct (negb (f_on f)); [rewrite off_value_t; apply relt_bind; [apply relt_off_value|intros; apply relt_ret]|].
  apply relt_bind.
  - destruct (f_prereqs f) as [|p ps]; [apply relt_ret|].
    change (relt (prereq_loop o E (eval_flag re_ok re_match o E P c n (chain ++ [f_key f])) f (chain ++ [f_key f]) (p :: ps))
                 (prereq_loop o t_env (eval_flag re_ok re_match o t_env P c n (chain ++ [f_key f])) (tf f) (chain ++ [f_key f]) (p :: ps))).
    apply relt_prereq_loop. intros pf Hpf. apply IH. exact Hpf.
  - intros [|k|].
    + rewrite (any_target_match_t f Hp).
      destruct (any_target_match c f); [rewrite get_variation_t; apply relt_bind; [apply relt_get_variation|intros; apply relt_ret]|].
      change (f_rules (tf f)) with (map tr (f_rules f)). rewrite seg_fuel_t. apply relt_rules_loop; [exact (proj2 (proj2 Hp))|].
      intros sg Hs. apply relt_seg_contains. exact Hs.
    + rewrite off_value_t. apply relt_bind; [apply relt_off_value|intros; apply relt_ret].
    + apply relt_ret.
Qed.

Theorem transformed_store_same_evaluation f : okf f ->
  run re_ok re_match o t_env P c (tf f) =
  match run re_ok re_match o E P c f with Done r => Done (t_out r) | Panic => Panic | OutOfFuel => OutOfFuel end.
Proof.
  intros Hp.
  destruct (match c with CInvalid => true | _ => false end) eqn:Hc.
  { destruct c; try discriminate. reflexivity. }
  assert (Hn : c <> CInvalid) by (intros Hx; rewrite Hx in Hc; discriminate).
  rewrite (run_valid re_ok re_match o t_env P c (tf f) Hn), (run_valid re_ok re_match o E P c f Hn). unfold finish.
  rewrite flag_fuel_t.
  assert (HR0 : Rt st0 st0) by (unfold Rt; auto).
  destruct (relt_eval_flag (flag_fuel E) [] f Hp st0 st0 HR0) as [E1 [E2 [E3 E4]]].
  destruct (eval_flag re_ok re_match o E P c (flag_fuel E) [] f st0) as [r1 s1].
  destruct (eval_flag re_ok re_match o t_env P c (flag_fuel E) [] (tf f) st0) as [r2 s2]. simpl in *. subst r2.
  destruct r1 as [[d b]| |]; try reflexivity. rewrite E3, E4. unfold t_out. cbn [out_detail out_isexp out_trace].
  rewrite is_experiment_t, map_rev. reflexivity.
Qed.

End TE.

(* C09: "... a result equal to what evaluating that prerequisite flag on its own returns".
   On the reference interpreter: if a nested evaluation of pf -- at any fuel, below any reference path -- completed (did not
   abort), then evaluating pf on its own, with an empty path and any fuel at least as large, returns the same detail.
   Two monotonicity facts: a completed evaluation never met a cycle, so a shorter path changes nothing; and more fuel
   never changes a result that was reached. *)
From LD Require Import Base F32 Data Semver Model Ops Bucket Eval EvalFacts Safety WellFormed Pure Refine.
Open Scope Z_scope.

Section SA.
Variable re_ok : str -> bool.
Variable re_match : str -> str -> bool.
Variable o : opts.
Variable E : env.
Variable P : bsprov.
Variable c : ctx.

Notation peval := (p_eval re_ok re_match o E P c).

(* the prerequisite walk with a completed outcome is insensitive to shrinking the path, given that each nested call is *)
Lemma p_prereqs_shrink ev1 ev2 chain1 chain2 ps out :
  (forall k, In k chain2 -> In k chain1) ->
  (forall pf d, ev1 pf = Done (d, true) -> ev2 pf = Done (d, true)) ->
  p_prereqs E ev1 chain1 ps = Done out -> out <> PAbort -> p_prereqs E ev2 chain2 ps = Done out.
Proof.
  intros Hsub Hev. induction ps as [|p rest IH]; cbn [p_prereqs]; intros H Hno; [exact H|].
  destruct (assoc (pq_key p) (e_flags E)) as [pf|]; [|exact H].
  destruct (mem_str (f_key pf) chain1) eqn:Hm1; [inversion H; subst; contradiction|].
  assert (Hm2 : mem_str (f_key pf) chain2 = false).
  { destruct (mem_str (f_key pf) chain2) eqn:Hm2; [|reflexivity]. apply mem_str_In in Hm2. apply Hsub in Hm2.
    apply mem_str_In in Hm2. congruence. }
  rewrite Hm2. destruct (ev1 pf) as [[d ok]| |] eqn:He; try discriminate. cbn [rbind] in H.
  destruct ok; cbn [negb] in H; [|inversion H; subst; contradiction].
  rewrite (Hev pf d He). cbn [rbind negb]. destruct (prereq_met pf d (pq_var p)); [apply IH; assumption|exact H].
Qed.

Lemma p_eval_shrink : forall n chain1 chain2 f d,
  (forall k, In k chain2 -> In k chain1) -> peval n chain1 f = Done (d, true) -> peval n chain2 f = Done (d, true).
Proof.
  induction n as [|n IH]; intros chain1 chain2 f d Hsub H; [discriminate|]. cbn [p_eval] in *.
  destruct (negb (f_on f)); [exact H|].
  destruct (f_prereqs f) as [|p0 ps0] eqn:Hps; [exact H|].
  destruct (p_prereqs E (peval n (chain1 ++ [f_key f])) (chain1 ++ [f_key f]) (p0 :: ps0)) as [out| |] eqn:Hp; try discriminate.
  cbn [rbind] in H.
  assert (Hno : out <> PAbort) by (intros Hx; subst out; discriminate H).
  rewrite (p_prereqs_shrink (peval n (chain1 ++ [f_key f])) (peval n (chain2 ++ [f_key f])) (chain1 ++ [f_key f]) (chain2 ++ [f_key f])
             (p0 :: ps0) out); [exact H| | |exact Hp|exact Hno].
  - intros k Hk. apply in_app_or in Hk. apply in_or_app. destruct Hk as [Hk|Hk]; [left; apply Hsub; exact Hk|right; exact Hk].
  - intros pf d' Hd. apply (IH (chain1 ++ [f_key f])); [|exact Hd].
    intros k Hk. apply in_app_or in Hk. apply in_or_app. destruct Hk as [Hk|Hk]; [left; apply Hsub; exact Hk|right; exact Hk].
Qed.

(* more fuel never changes a result that was reached *)
Lemma p_prereqs_more ev1 ev2 chain' ps out :
  (forall pf r, ev1 pf = Done r -> ev2 pf = Done r) -> p_prereqs E ev1 chain' ps = Done out -> p_prereqs E ev2 chain' ps = Done out.
Proof.
  intros Hev. induction ps as [|p rest IH]; cbn [p_prereqs]; intros H; [exact H|].
  destruct (assoc (pq_key p) (e_flags E)) as [pf|]; [|exact H].
  destruct (mem_str (f_key pf) chain'); [exact H|].
  destruct (ev1 pf) as [[d ok]| |] eqn:He; try discriminate. rewrite (Hev pf _ He). cbn [rbind] in *.
  destruct (negb ok); [exact H|]. destruct (prereq_met pf d (pq_var p)); [apply IH; exact H|exact H].
Qed.
Lemma p_eval_more_fuel : forall n m chain f r, (n <= m)%nat -> peval n chain f = Done r -> peval m chain f = Done r.
Proof.
  induction n as [|n IH]; intros m chain f r Hle H; [discriminate|]. destruct m as [|m]; [lia|]. cbn [p_eval] in *.
  destruct (negb (f_on f)); [exact H|].
  destruct (f_prereqs f) as [|p0 ps0]; [exact H|].
  destruct (p_prereqs E (peval n (chain ++ [f_key f])) (chain ++ [f_key f]) (p0 :: ps0)) as [out| |] eqn:Hp; try discriminate.
  rewrite (p_prereqs_more (peval n (chain ++ [f_key f])) (peval m (chain ++ [f_key f])) _ _ out); [exact H| |exact Hp].
  intros pf r' Hr'. apply (IH m); [lia|exact Hr'].
Qed.

(* what an event reports is what evaluating the prerequisite flag on its own returns *)
Theorem completed_nested_result_is_standalone n m chain pf d :
  (n <= m)%nat -> peval n chain pf = Done (d, true) -> peval m [] pf = Done (d, true).
Proof.
  intros Hle H. apply (p_eval_more_fuel n m); [exact Hle|]. apply (p_eval_shrink n chain []); [intros k []|exact H].
Qed.

(* the same for the trace-producing model, from any state whose cache holds only provider answers *)
Corollary recorded_result_is_standalone n m chain pf d s s' :
  Inv P s -> (n <= m)%nat -> eval_flag re_ok re_match o E P c n chain pf s = (Done (d, true), s') ->
  peval m [] pf = Done (d, true).
Proof.
  intros Hs Hle He. destruct (sim_eval_flag re_ok re_match o E P c n chain pf s Hs) as [H1 _]. rewrite He in H1. simpl in H1.
  apply (completed_nested_result_is_standalone n m chain); [exact Hle|symmetry; exact H1].
Qed.

End SA.

(* C14 at the level of whole evaluations: running the evaluator over a store in which EVERY flag and segment has been
   preprocessed (PreprocessFlag / PreprocessSegment: key sets for targets and segment lists, equality sets, pre-parsed
   regex / timestamp / semver operands) yields the same detail, the same experiment bit and the same trace -- data-store
   reads, big-segment queries, log lines, events -- as running it over the plain hand-built values; the only difference is
   that a prerequisite event carries the preprocessed form of the prerequisite flag it reports. *)
From LD Require Import Base F32 Data Semver Model Ops Bucket Eval EvalFacts Safety WellFormed Codec Targets Prep.
From RecordUpdate Require Import RecordUpdate.
Open Scope Z_scope.

Lemma assoc_map_snd {A B} (g : A -> B) k (l : list (str * A)) :
  assoc k (map (fun kv => (fst kv, g (snd kv))) l) = option_map g (assoc k l).
Proof. induction l as [|[k' v] r IH]; simpl; [reflexivity|]. destruct (str_eqb k k'); [reflexivity|exact IH]. Qed.
Lemma assoc_In {A} k (l : list (str * A)) v : assoc k l = Some v -> exists k', In (k', v) l.
Proof.
  induction l as [|[k' v'] r IH]; simpl; [discriminate|]. destruct (str_eqb k k').
  - intros H; inversion H; subst. exists k'. left; reflexivity.
  - intros H. destruct (IH H) as [k2 H2]. exists k2. right; exact H2.
Qed.
Lemma existsb_map {A B} (g : A -> B) (p : B -> bool) l : existsb p (map g l) = existsb (fun x => p (g x)) l.
Proof. induction l as [|x r IH]; simpl; [reflexivity|]. rewrite IH. reflexivity. Qed.
Lemma existsb_ext_in {A} (p q : A -> bool) l : (forall x, In x l -> p x = q x) -> existsb p l = existsb q l.
Proof.
  induction l as [|x r IH]; simpl; intros H; [reflexivity|]. rewrite (H x) by (left; reflexivity).
  rewrite IH; [reflexivity|]. intros y Hy. apply H. right; exact Hy.
Qed.

Section PE.
Variable re_ok : str -> bool.
Variable re_match : str -> str -> bool.
Variable o : opts.
Variable E : env.
Variable P : bsprov.
Variable c : ctx.

Definition ppf : flag -> flag := preprocess_flag re_ok.
Definition pps : segment -> segment := preprocess_segment re_ok.
Definition pp_env : env :=
  mkenv (map (fun kv => (fst kv, ppf (snd kv))) (e_flags E)) (map (fun kv => (fst kv, pps (snd kv))) (e_segments E)).

(* "hand-built with no preprocessing at all" *)
Definition plain_target (t : target) : Prop := t_pre t = None.
Definition plain_rule (ru : rule) : Prop := Forall plain_clause (ru_clauses ru).
Definition plain_flag (f : flag) : Prop := Forall plain_target (f_targets f) /\ Forall plain_rule (f_rules f).
Definition plain_segtarget (t : segtarget) : Prop := st_pre t = None.
Definition plain_segrule (r : segrule) : Prop := Forall plain_clause (sr_clauses r).
Definition plain_segment (sg : segment) : Prop :=
  sg_pre_inc sg = None /\ sg_pre_exc sg = None /\ Forall plain_segtarget (sg_inc_ctx sg) /\
  Forall plain_segtarget (sg_exc_ctx sg) /\ Forall plain_segrule (sg_rules sg).
Definition plain_env : Prop :=
  Forall (fun kv => plain_flag (snd kv)) (e_flags E) /\ Forall (fun kv => plain_segment (snd kv)) (e_segments E).

Definition pp_event (ev : event) : event :=
  mkevent (ev_flagkey ev) (ppf (ev_prereq ev)) (ev_detail ev) (ev_isexp ev) (ev_exclude ev).
Definition pp_obs (x : obs) : obs := match x with OEvent ev => OEvent (pp_event ev) | _ => x end.
Definition pp_out (r : outcome) : outcome := mkoutcome (out_detail r) (out_isexp r) (map pp_obs (out_trace r)).

(* s1: state of the plain run, s2: state of the preprocessed run *)
Definition Rp (s1 s2 : st) : Prop :=
  s_cache s2 = s_cache s1 /\ s_status s2 = s_status s1 /\ s_trace s2 = map pp_obs (s_trace s1).
Definition relp {A} (m1 m2 : M A) : Prop :=
  forall s1 s2, Rp s1 s2 -> fst (m2 s2) = fst (m1 s1) /\ Rp (snd (m1 s1)) (snd (m2 s2)).

Lemma relp_ret {A} (a : A) : relp (ret a) (ret a).
Proof. intros s1 s2 H. split; [reflexivity|exact H]. Qed.
Lemma relp_fuel {A} : relp (@out_of_fuel A) (@out_of_fuel A).
Proof. intros s1 s2 H. split; [reflexivity|exact H]. Qed.
Lemma relp_panic {A} : relp (@panic A) (@panic A).
Proof. intros s1 s2 H. split; [reflexivity|exact H]. Qed.
Lemma relp_emit x : relp (emit x) (emit (pp_obs x)).
Proof. intros s1 s2 [H1 [H2 H3]]. split; [reflexivity|]. unfold Rp; simpl. rewrite H3. auto. Qed.
Lemma relp_emit_same x : pp_obs x = x -> relp (emit x) (emit x).
Proof. intros H. pose proof (relp_emit x) as G. rewrite H in G. exact G. Qed.
Lemma relp_set_status b : relp (set_status b) (set_status b).
Proof. intros s1 s2 [H1 [H2 H3]]. split; [reflexivity|]. unfold Rp; simpl. auto. Qed.
Lemma relp_bind {A B} (m1 m2 : M A) (f1 f2 : A -> M B) :
  relp m1 m2 -> (forall a, relp (f1 a) (f2 a)) -> relp (bind m1 f1) (bind m2 f2).
Proof.
  intros Hm Hf s1 s2 Hs. unfold bind. destruct (Hm s1 s2 Hs) as [E1 E2].
  destruct (m1 s1) as [r1 t1]. destruct (m2 s2) as [r2 t2]. simpl in *. subst r2.
  destruct r1; simpl; [apply Hf; exact E2| |]; split; auto.
Qed.
Lemma relp_log k e : relp (log o k e) (log o k e).
Proof. unfold log. destruct (o_logger o); [apply relp_emit_same; reflexivity|apply relp_ret]. Qed.
Lemma relp_membership_for k : relp (membership_for P k) (membership_for P k).
Proof.
  intros s1 s2 [H1 [H2 H3]]. unfold membership_for. rewrite H1.
  destruct (assoc k (s_cache s1)); [split; [reflexivity|unfold Rp; auto]|].
  destruct P as [prov|]; simpl; (split; [reflexivity|]); unfold Rp; simpl; rewrite ?H1, ?H2, ?H3; repeat split; auto.
Qed.

(* ---------- projections untouched by preprocessing ---------- *)
Lemma pps_key sg : sg_key (pps sg) = sg_key sg. Proof. reflexivity. Qed.
Lemma pps_salt sg : sg_salt (pps sg) = sg_salt sg. Proof. reflexivity. Qed.
Lemma pps_rules sg : sg_rules (pps sg) = map (pp_segrule re_ok) (sg_rules sg). Proof. reflexivity. Qed.
Lemma ppf_rules f : f_rules (ppf f) = map (pp_rule re_ok) (f_rules f). Proof. reflexivity. Qed.
Lemma ppf_targets f : f_targets (ppf f) = map pp_target (f_targets f). Proof. reflexivity. Qed.

Lemma seg_fuel_pp : seg_fuel pp_env = seg_fuel E.
Proof. unfold seg_fuel, pp_env. cbn [e_segments]. rewrite map_length. reflexivity. Qed.
Lemma flag_fuel_pp : flag_fuel pp_env = flag_fuel E.
Proof. unfold flag_fuel, pp_env. cbn [e_flags]. rewrite map_length. reflexivity. Qed.

Hypothesis HE : plain_env.

Lemma lookup_segment k :
  assoc k (e_segments pp_env) = option_map pps (assoc k (e_segments E)) /\
  (forall sg, assoc k (e_segments E) = Some sg -> plain_segment sg).
Proof.
  split; [apply assoc_map_snd|]. intros sg H. destruct (assoc_In _ _ _ H) as [k' Hin].
  destruct HE as [_ Hs]. rewrite Forall_forall in Hs. exact (Hs _ Hin).
Qed.
Lemma lookup_flag k :
  assoc k (e_flags pp_env) = option_map ppf (assoc k (e_flags E)) /\
  (forall f, assoc k (e_flags E) = Some f -> plain_flag f).
Proof.
  split; [apply assoc_map_snd|]. intros f H. destruct (assoc_In _ _ _ H) as [k' Hin].
  destruct HE as [Hf _]. rewrite Forall_forall in Hf. exact (Hf _ Hin).
Qed.

(* ---------- segments ---------- *)
Lemma seg_target_pre t : plain_segtarget t -> seg_target_matches c (pp_segtarget t) = seg_target_matches c t.
Proof.
  intros Hp. unfold seg_target_matches, pp_segtarget. cbn. destruct (ctx_key_by_kind c (st_kind t)); [|reflexivity].
  rewrite key_sets_transparent. rewrite Hp. reflexivity.
Qed.

Lemma regular_lists_pre sg : plain_segment sg -> regular_lists c (pps sg) = regular_lists c sg.
Proof.
  intros [H1 [H2 [H3 [H4 _]]]]. unfold regular_lists, pps, preprocess_segment. cbn.
  rewrite !existsb_map.
  rewrite (existsb_ext_in (fun x => seg_target_matches c (pp_segtarget x)) (seg_target_matches c) (sg_inc_ctx sg))
    by (intros x Hx; apply seg_target_pre; rewrite Forall_forall in H3; exact (H3 x Hx)).
  rewrite (existsb_ext_in (fun x => seg_target_matches c (pp_segtarget x)) (seg_target_matches c) (sg_exc_ctx sg))
    by (intros x Hx; apply seg_target_pre; rewrite Forall_forall in H4; exact (H4 x Hx)).
  rewrite H1, H2. match goal with |- context [ctx_key_by_kind c ?k] => destruct (ctx_key_by_kind c k) end; [|reflexivity].
  rewrite !key_sets_transparent. reflexivity.
Qed.

Lemma relp_first_clause cm1 cm2 cls :
  (forall cl, In cl cls -> relp (cm1 cl) (cm2 (preprocess_clause re_ok cl))) ->
  relp (first_clause cm1 cls) (first_clause cm2 (map (preprocess_clause re_ok) cls)).
Proof.
  induction cls as [|cl r IH]; intros H; simpl; [apply relp_ret|].
  apply relp_bind; [apply H; left; reflexivity|]. intros [[|]|e]; try apply relp_ret.
  apply IH. intros x Hx. apply H. right; exact Hx.
Qed.

Lemma relp_seg_match_values sc1 sc2 neg vals :
  (forall sg, plain_segment sg -> relp (sc1 sg) (sc2 (pps sg))) ->
  relp (seg_match_values E sc1 neg vals) (seg_match_values pp_env sc2 neg vals).
Proof.
  intros H. induction vals as [|v r IH]; cbn [seg_match_values]; [apply relp_ret|]. destruct v; try exact IH.
  apply relp_bind; [apply relp_emit_same; reflexivity|]. intros _.
  destruct (lookup_segment x) as [L1 L2]. rewrite L1.
  destruct (assoc x (e_segments E)) as [sg|]; simpl; [|exact IH].
  apply relp_bind; [apply H; apply L2; reflexivity|]. intros [[|]|e]; try apply relp_ret. exact IH.
Qed.

Lemma relp_clause_match sc1 sc2 cl :
  plain_clause cl -> (forall sg, plain_segment sg -> relp (sc1 sg) (sc2 (pps sg))) ->
  relp (clause_match re_ok re_match E c sc1 cl) (clause_match re_ok re_match pp_env c sc2 (preprocess_clause re_ok cl)).
Proof.
  intros Hp H. unfold clause_match. rewrite (pre_op re_ok cl), (pre_values re_ok cl).
  destruct (str_eqb _ _); [apply relp_seg_match_values; exact H|].
  rewrite (clause_match_pre re_ok re_match cl c Hp). apply relp_ret.
Qed.

Lemma relp_seg_rule_match sc1 sc2 sg r :
  plain_segrule r -> (forall sg, plain_segment sg -> relp (sc1 sg) (sc2 (pps sg))) ->
  relp (seg_rule_match re_ok re_match o E c sc1 sg r) (seg_rule_match re_ok re_match o pp_env c sc2 (pps sg) (pp_segrule re_ok r)).
Proof.
  intros Hp H. unfold seg_rule_match. apply relp_bind.
  - change (sr_clauses (pp_segrule re_ok r)) with (map (preprocess_clause re_ok) (sr_clauses r)).
    apply relp_first_clause. intros cl Hin. apply relp_clause_match; [|exact H].
    unfold plain_segrule in Hp. rewrite Forall_forall in Hp. exact (Hp cl Hin).
  - intros [[|]|e]; try apply relp_ret.
    change (sr_weight (pp_segrule re_ok r)) with (sr_weight r). change (sr_kind (pp_segrule re_ok r)) with (sr_kind r).
    change (sr_bucket_by (pp_segrule re_ok r)) with (sr_bucket_by r). rewrite pps_key, pps_salt.
    destruct (sr_weight r); [|apply relp_ret].
    destruct (compute_bucket _ _ _ _ _ _ _ _) as [[b []]|e]; apply relp_ret.
Qed.

Lemma relp_seg_rules rm1 rm2 key rs :
  (forall r, In r rs -> relp (rm1 r) (rm2 (pp_segrule re_ok r))) ->
  relp (seg_rules rm1 key rs) (seg_rules rm2 key (map (pp_segrule re_ok) rs)).
Proof.
  induction rs as [|r rest IH]; intros H; simpl; [apply relp_ret|].
  apply relp_bind; [apply H; left; reflexivity|]. intros [[|]|e]; try apply relp_ret.
  apply IH. intros x Hx. apply H. right; exact Hx.
Qed.

Lemma relp_seg_contains : forall fuel chain sg, plain_segment sg ->
  relp (seg_contains re_ok re_match o E P c fuel chain sg) (seg_contains re_ok re_match o pp_env P c fuel chain (pps sg)).
Proof.
  induction fuel as [|n IH]; intros chain sg Hp; cbn [seg_contains]; [apply relp_fuel|].
  rewrite pps_key.
  destruct (mem_str (sg_key sg) chain); [apply relp_ret|].
  apply relp_bind.
  - change (sg_unbounded (pps sg)) with (sg_unbounded sg). change (sg_generation (pps sg)) with (sg_generation sg).
    change (sg_unb_kind (pps sg)) with (sg_unb_kind sg).
    destruct (sg_unbounded sg); [|rewrite (regular_lists_pre sg Hp); apply relp_ret].
    destruct (sg_generation sg).
    + destruct (ctx_key_by_kind c (sg_unb_kind sg)).
      * apply relp_bind; [apply relp_emit_same; reflexivity|]. intros _. apply relp_bind; [apply relp_membership_for|].
        intros [m|]; [|apply relp_ret].
        unfold big_segment_ref. rewrite pps_key.
        apply relp_bind; [apply relp_emit_same; reflexivity|intros; apply relp_ret].
      * apply relp_bind; [apply relp_emit_same; reflexivity|intros; apply relp_ret].
    + apply relp_bind; [apply relp_emit_same; reflexivity|]. intros _. apply relp_bind; [apply relp_set_status|intros; apply relp_ret].
  - intros [b|]; [apply relp_ret|]. rewrite pps_rules.
    apply relp_seg_rules. intros r Hin. apply relp_seg_rule_match.
    + destruct Hp as [_ [_ [_ [_ Hr]]]]. rewrite Forall_forall in Hr. exact (Hr r Hin).
    + intros sg' Hp'. apply IH. exact Hp'.
Qed.

(* ---------- flags ---------- *)
Lemma get_variation_pp f i r : get_variation o (ppf f) i r = get_variation o f i r.
Proof. reflexivity. Qed.
Lemma off_value_pp f r : off_value o (ppf f) r = off_value o f r.
Proof. reflexivity. Qed.
Lemma vr_detail_pp f vr r : vr_detail o c (ppf f) vr r = vr_detail o c f vr r.
Proof. reflexivity. Qed.

Lemma relp_same {A} (m : M A) : (forall s1 s2, Rp s1 s2 -> fst (m s2) = fst (m s1) /\ Rp (snd (m s1)) (snd (m s2))) -> relp m m.
Proof. intros H. exact H. Qed.

Lemma relp_get_variation f i r : relp (get_variation o f i r) (get_variation o f i r).
Proof. unfold get_variation. destruct (znth_opt _ _); [apply relp_ret|]. apply relp_bind; [apply relp_log|intros; apply relp_ret]. Qed.
Lemma relp_off_value f r : relp (off_value o f r) (off_value o f r).
Proof. unfold off_value. destruct (f_off f); [apply relp_get_variation|apply relp_ret]. Qed.
Lemma relp_vr_detail f vr r : relp (vr_detail o c f vr r) (vr_detail o c f vr r).
Proof.
  unfold vr_detail. destruct (vr_result o c vr (f_key f) (f_salt f)) as [[[i b]|e]| |].
  - apply relp_get_variation.
  - apply relp_bind; [apply relp_log|intros; apply relp_ret].
  - apply relp_panic.
  - apply relp_fuel.
Qed.

Lemma first_target_pp ts : Forall plain_target ts -> first_target c (map pp_target ts) = first_target c ts.
Proof.
  induction ts as [|t r IH]; intros H; simpl; [reflexivity|]. inversion H; subst.
  rewrite (target_match_pre c t) by assumption. rewrite IH by assumption. reflexivity.
Qed.
Lemma fallback_target_pp ts v : Forall plain_target ts -> fallback_target c (map pp_target ts) v = fallback_target c ts v.
Proof.
  induction ts as [|t r IH]; intros H; simpl; [reflexivity|]. inversion H; subst.
  change (t_var (pp_target t)) with (t_var t). rewrite (target_match_pre c t) by assumption. rewrite IH by assumption. reflexivity.
Qed.
Lemma ctx_targets_pp f ts : Forall plain_target (f_targets f) -> ctx_targets c (ppf f) ts = ctx_targets c f ts.
Proof.
  intros H. induction ts as [|t r IH]; cbn [ctx_targets]; [reflexivity|]. rewrite ppf_targets, fallback_target_pp by assumption.
  rewrite IH. reflexivity.
Qed.
Lemma any_target_match_pp f : plain_flag f -> any_target_match c (ppf f) = any_target_match c f.
Proof.
  intros [Ht _]. unfold any_target_match. change (f_ctargets (ppf f)) with (f_ctargets f).
  destruct (f_ctargets f); [rewrite ppf_targets; apply first_target_pp; exact Ht|apply ctx_targets_pp; exact Ht].
Qed.

Lemma znth_opt_map {A B} (g : A -> B) l i : znth_opt (map g l) i = option_map g (znth_opt l i).
Proof. unfold znth_opt. destruct (i <? 0); [reflexivity|apply nth_opt_map]. Qed.
Lemma is_experiment_pp f r : is_experiment (ppf f) r = is_experiment f r.
Proof.
  unfold is_experiment. destruct (rs_inexp r); [reflexivity|]. destruct (rs_kind r); try reflexivity.
  rewrite ppf_rules, znth_opt_map. destruct (znth_opt (f_rules f) i); reflexivity.
Qed.

Lemma relp_rules_loop sc1 sc2 f rs i :
  Forall plain_rule rs -> (forall sg, plain_segment sg -> relp (sc1 sg) (sc2 (pps sg))) ->
  relp (rules_loop re_ok re_match o E c sc1 f rs i) (rules_loop re_ok re_match o pp_env c sc2 (ppf f) (map (pp_rule re_ok) rs) i).
Proof.
  intros Hr H. revert i. induction rs as [|ru rest IH]; intros i; cbn [rules_loop map].
  - rewrite vr_detail_pp. apply relp_bind; [apply relp_vr_detail|intros; apply relp_ret].
  - inversion Hr as [|? ? Hru Hrest]; subst.
    change (ru_clauses (pp_rule re_ok ru)) with (map (preprocess_clause re_ok) (ru_clauses ru)).
    apply relp_bind.
    + apply relp_first_clause. intros cl Hin. apply relp_clause_match; [|exact H].
      unfold plain_rule in Hru. rewrite Forall_forall in Hru. exact (Hru cl Hin).
    + intros [[|]|e].
      * rewrite vr_detail_pp. apply relp_bind; [apply relp_vr_detail|intros; apply relp_ret].
      * apply IH. exact Hrest.
      * apply relp_bind; [apply relp_log|intros; apply relp_ret].
Qed.

Lemma relp_prereq_loop ev1 ev2 f chain' ps :
  (forall pf, plain_flag pf -> relp (ev1 pf) (ev2 (ppf pf))) ->
  relp (prereq_loop o E ev1 f chain' ps) (prereq_loop o pp_env ev2 (ppf f) chain' ps).
Proof.
  intros H. induction ps as [|p rest IH]; cbn [prereq_loop]; [apply relp_ret|].
  apply relp_bind; [apply relp_emit_same; reflexivity|]. intros _.
  destruct (lookup_flag (pq_key p)) as [L1 L2]. rewrite L1.
  destruct (assoc (pq_key p) (e_flags E)) as [pf|]; simpl; [|apply relp_ret].
  change (f_key (ppf pf)) with (f_key pf). change (f_key (ppf f)) with (f_key f).
  destruct (mem_str (f_key pf) chain').
  - apply relp_bind; [apply relp_log|intros; apply relp_ret].
  - apply relp_bind; [apply H; apply L2; reflexivity|]. intros [d ok]. destruct (negb ok); [apply relp_ret|].
    apply relp_bind.
    + destruct (o_recorder o); [|apply relp_ret]. rewrite is_experiment_pp.
      change (f_exclude (ppf pf)) with (f_exclude pf).
      apply (relp_emit (OEvent (mkevent (f_key f) pf d (is_experiment pf (d_reason d)) (f_exclude pf)))).
    + intros _. change (f_on (ppf pf)) with (f_on pf). destruct (_ || _); [apply relp_ret|exact IH].
Qed.

Theorem relp_eval_flag : forall fuel chain f, plain_flag f ->
  relp (eval_flag re_ok re_match o E P c fuel chain f) (eval_flag re_ok re_match o pp_env P c fuel chain (ppf f)).
Proof.
  induction fuel as [|n IH]; intros chain f Hp; cbn [eval_flag]; [apply relp_fuel|].
  change (f_on (ppf f)) with (f_on f). change (f_prereqs (ppf f)) with (f_prereqs f). change (f_key (ppf f)) with (f_key f).
  destruct (negb (f_on f)); [rewrite off_value_pp; apply relp_bind; [apply relp_off_value|intros; apply relp_ret]|].
  apply relp_bind.
  - destruct (f_prereqs f) as [|p ps]; [apply relp_ret|].
    change (relp (prereq_loop o E (eval_flag re_ok re_match o E P c n (chain ++ [f_key f])) f (chain ++ [f_key f]) (p :: ps))
                 (prereq_loop o pp_env (eval_flag re_ok re_match o pp_env P c n (chain ++ [f_key f])) (ppf f) (chain ++ [f_key f]) (p :: ps))).
    apply relp_prereq_loop. intros pf Hpf. apply IH. exact Hpf.
  - intros [|k|].
    + rewrite (any_target_match_pp f Hp).
      destruct (any_target_match c f); [rewrite get_variation_pp; apply relp_bind; [apply relp_get_variation|intros; apply relp_ret]|].
      rewrite ppf_rules, seg_fuel_pp. apply relp_rules_loop; [exact (proj2 Hp)|].
      intros sg Hs. apply relp_seg_contains. exact Hs.
    + rewrite off_value_pp. apply relp_bind; [apply relp_off_value|intros; apply relp_ret].
    + apply relp_ret.
Qed.

(* the whole evaluation *)
Theorem preprocessed_store_same_evaluation f : plain_flag f ->
  run re_ok re_match o pp_env P c (ppf f) =
  match run re_ok re_match o E P c f with Done r => Done (pp_out r) | Panic => Panic | OutOfFuel => OutOfFuel end.
Proof.
  intros Hp.
  destruct (match c with CInvalid => true | _ => false end) eqn:Hc.
  { destruct c; try discriminate. reflexivity. }
  assert (Hn : c <> CInvalid) by (intros Hx; rewrite Hx in Hc; discriminate).
  rewrite (run_valid re_ok re_match o pp_env P c (ppf f) Hn), (run_valid re_ok re_match o E P c f Hn). unfold finish.
  rewrite flag_fuel_pp.
  assert (HR0 : Rp st0 st0) by (unfold Rp; auto).
  destruct (relp_eval_flag (flag_fuel E) [] f Hp st0 st0 HR0) as [E1 [E2 [E3 E4]]].
  destruct (eval_flag re_ok re_match o E P c (flag_fuel E) [] f st0) as [r1 s1].
  destruct (eval_flag re_ok re_match o pp_env P c (flag_fuel E) [] (ppf f) st0) as [r2 s2]. simpl in *. subst r2.
  destruct r1 as [[d b]| |]; try reflexivity. rewrite E3, E4. unfold pp_out. cbn [out_detail out_isexp out_trace].
  rewrite is_experiment_pp, map_rev. reflexivity.
Qed.

End PE.

(* read as the property states it: value, index, full reason, experiment bit identical; the data-store reads,
   big-segment queries and log lines identical and in the same order; one event per prerequisite evaluation on both sides *)
Corollary preprocessing_is_transparent re_ok re_match o E P c f r :
  plain_env E -> plain_flag f -> run re_ok re_match o E P c f = Done r ->
  exists r', run re_ok re_match o (pp_env re_ok E) P c (ppf re_ok f) = Done r' /\
             out_detail r' = out_detail r /\ out_isexp r' = out_isexp r /\
             out_trace r' = map (pp_obs re_ok) (out_trace r) /\ length (out_trace r') = length (out_trace r).
Proof.
  intros HE Hp Hr. exists (pp_out re_ok r). rewrite (preprocessed_store_same_evaluation re_ok re_match o E P c HE f Hp), Hr.
  split; [reflexivity|]. unfold pp_out; simpl. rewrite map_length. auto.
Qed.

(* non-vacuity: a store with a flag (one user target list, one rule with an "in" clause) and a segment (lists and a rule)
   built by hand without precomputed data meets the hypotheses *)
Example plain_store_exists :
  let cl := mkclause [] (new_literal_ref (s "email")) op_in [JStr (s "a"); JStr (s "b")] false cpre_none in
  let vr := mkvorr (Some 0) (mkrollout [] [] [] ref_undef None) in
  let f := mkflag (s "f") true [] [mktarget [] [s "u1"; s "u2"] 1 None] [] [mkrule vr (s "r") [cl] false] vr None [JBool true; JBool false] [] false false
                  (mkfmeta 0 false false 0 false false false None None) in
  let sg := mksegment (s "sg") [s "u1"] [s "u3"] [mksegtarget (s "org") [s "o1"] None] [] (s "salt") [mksegrule (s "sr") [cl] None ref_undef []]
                      false [] 1 None false None None in
  plain_flag f /\ plain_env (mkenv [(s "f", f)] [(s "sg", sg)]).
Proof.
  cbv zeta. split; [|split].
  - split; repeat constructor.
  - repeat constructor.
  - constructor; [|constructor]. cbn [snd]. repeat split; repeat constructor.
Qed.

(* Data model (ldmodel/model_flag.go, model_segment.go) with the precomputed lookup data of preprocess.go. *)
From LD Require Import Base F32 Data Semver.
Open Scope Z_scope.

Record wvar := mkwvar { wv_var : Z; wv_weight : Z; wv_untracked : bool }.
Record rollout := mkrollout {
  ro_kind : str; ro_ctxkind : str; ro_vars : list wvar; ro_bucket_by : ref; ro_seed : option Z }.
Record vorr := mkvorr { vr_var : option Z; vr_rollout : rollout }.

(* clausePreprocessedValue: each parsed form is present iff it was valid *)
Record pval := mkpval { pv_re : option str; pv_time : option Z; pv_sem : option semver }.
Record cpre := mkcpre { cp_values : option (list pval); cp_map : option (list jv) }.
Definition cpre_none : cpre := mkcpre None None.

Record clause := mkclause {
  cl_kind : str; cl_attr : ref; cl_op : str; cl_values : list jv; cl_negate : bool; cl_pre : cpre }.
Record target := mktarget { t_kind : str; t_values : list str; t_var : Z; t_pre : option (list str) }.
Record prereq := mkprereq { pq_key : str; pq_var : Z }.
Record rule := mkrule { ru_vr : vorr; ru_id : str; ru_clauses : list clause; ru_track : bool }.

Record fmeta := mkfmeta {
  fm_version : Z; fm_deleted : bool; fm_track_events : bool; fm_debug_until : Z;
  fm_cs_mobile : bool; fm_cs_env : bool; fm_cs_explicit : bool;
  fm_sampling : option Z; fm_migration : option (option Z) }.

Record flag := mkflag {
  f_key : str; f_on : bool; f_prereqs : list prereq; f_targets : list target; f_ctargets : list target;
  f_rules : list rule; f_fallthrough : vorr; f_off : option Z; f_vars : list jv; f_salt : str;
  f_track_ft : bool; f_exclude : bool; f_meta : fmeta }.

Record segtarget := mksegtarget { st_kind : str; st_values : list str; st_pre : option (list str) }.
Record segrule := mksegrule {
  sr_id : str; sr_clauses : list clause; sr_weight : option Z; sr_bucket_by : ref; sr_kind : str }.
Record segment := mksegment {
  sg_key : str; sg_included : list str; sg_excluded : list str;
  sg_inc_ctx : list segtarget; sg_exc_ctx : list segtarget; sg_salt : str; sg_rules : list segrule;
  sg_unbounded : bool; sg_unb_kind : str; sg_version : Z; sg_generation : option Z; sg_deleted : bool;
  sg_pre_inc : option (list str); sg_pre_exc : option (list str) }.

Definition is_experiment_rollout (r : rollout) : bool := str_eqb (ro_kind r) (s "experiment").

(* operator names (ldmodel/operators.go) *)
Definition op_in := s "in".                   Definition op_ends := s "endsWith".
Definition op_starts := s "startsWith".       Definition op_matches := s "matches".
Definition op_contains := s "contains".       Definition op_lt := s "lessThan".
Definition op_le := s "lessThanOrEqual".      Definition op_gt := s "greaterThan".
Definition op_ge := s "greaterThanOrEqual".   Definition op_before := s "before".
Definition op_after := s "after".             Definition op_segment := s "segmentMatch".
Definition op_sv_eq := s "semVerEqual".       Definition op_sv_lt := s "semVerLessThan".
Definition op_sv_gt := s "semVerGreaterThan".

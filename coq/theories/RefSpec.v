(* C04, "an attribute is a literal name when the clause has no context kind and a slash-delimited path when it has one;
   ... undefined or syntactically invalid ... MALFORMED_FLAG".  ldattr.NewRef / NewLiteralRef (dependency go-sdk-common,
   modelled in Data.v) against a declarative statement of the reference syntax, written from the documentation of
   ldattr (a reference is either a plain attribute name that does not start with '/', or '/' followed by one or more
   non-empty '/'-separated components in which '~' is written "~0" and '/' is written "~1"):
     new_ref x is valid with components cs   <->   is_ref x cs
   and a literal name always denotes itself as its one component. *)
From LD Require Import Base Data.
Open Scope Z_scope.

Fixpoint join_slash (ps : list str) : str :=
  match ps with
  | [] => []
  | [p] => p
  | p :: r => p ++ slash :: join_slash r
  end.

Definition is_ref (x : str) (cs : list str) : Prop :=
  (exists c r, x = c :: r /\ c <> slash /\ cs = [x]) \/
  (cs <> [] /\ Forall (fun c : str => c <> []) cs /\ x = slash :: join_slash (map escape_lit cs)).

Definition ref_components (r : ref) : list str := map (ref_component r) (seq 0 (ref_depth r)).
Definition ref_valid (r : ref) : bool := negb (ref_has_err r).

(* ---------- escaping ---------- *)
Lemma unescape_escape u : unescape (escape_lit u) = Some u.
Proof.
  induction u as [|c r IH]; [reflexivity|]. unfold escape_lit in *. cbn [flat_map].
  destruct (N.eqb c tilde) eqn:Et.
  - apply N.eqb_eq in Et. subst c. cbn [app unescape]. change (N.eqb tilde tilde) with true. cbv iota.
    change (N.eqb 48 48)%N with true. cbv iota. rewrite IH. reflexivity.
  - destruct (N.eqb c slash) eqn:Es.
    + apply N.eqb_eq in Es. subst c. cbn [app unescape]. change (N.eqb tilde tilde) with true. cbv iota.
      change (N.eqb 49 48)%N with false. change (N.eqb 49 49)%N with true. cbv iota. rewrite IH. reflexivity.
    + cbn [app unescape]. rewrite Et. rewrite IH. reflexivity.
Qed.

Definition no_slash (p : str) : Prop := Forall (fun c => c <> slash) p.

Lemma escape_no_slash u : no_slash (escape_lit u).
Proof.
  induction u as [|c r IH]; [constructor|]. unfold escape_lit in *. cbn [flat_map].
  destruct (N.eqb c tilde) eqn:Et; [|destruct (N.eqb c slash) eqn:Es]; cbn [app].
  - constructor; [unfold tilde, slash; discriminate|]. constructor; [unfold slash; discriminate|exact IH].
  - constructor; [unfold tilde, slash; discriminate|]. constructor; [unfold slash; discriminate|exact IH].
  - constructor; [apply N.eqb_neq; exact Es|exact IH].
Qed.
Lemma escape_nonempty u : u <> [] -> escape_lit u <> [].
Proof.
  destruct u as [|c r]; [congruence|]. intros _. unfold escape_lit. cbn [flat_map].
  destruct (N.eqb c tilde); [discriminate|]. destruct (N.eqb c slash); discriminate.
Qed.

(* a component without '/' that unescapes to u is the escaping of u *)
Lemma unescape_inv : forall p u, unescape p = Some u -> no_slash p -> p = escape_lit u.
Proof.
  fix IH 1. intros p u H Hn. destruct p as [|c r]; cbn [unescape] in H.
  - inversion H. reflexivity.
  - inversion Hn as [|? ? Hc Hr]; subst. destruct (N.eqb c tilde) eqn:Et.
    + apply N.eqb_eq in Et. subst c. destruct r as [|d r']; [discriminate|].
      inversion Hr as [|? ? Hd Hr']; subst.
      destruct (N.eqb d 48%N) eqn:E0.
      * apply N.eqb_eq in E0. subst d. destruct (unescape r') as [u'|] eqn:Eu; [|discriminate]. inversion H; subst u.
        rewrite (IH r' u' Eu Hr'). unfold escape_lit. cbn [flat_map]. change (N.eqb tilde tilde) with true. reflexivity.
      * destruct (N.eqb d 49%N) eqn:E1; [|discriminate]. apply N.eqb_eq in E1. subst d.
        destruct (unescape r') as [u'|] eqn:Eu; [|discriminate]. inversion H; subst u.
        rewrite (IH r' u' Eu Hr'). unfold escape_lit. cbn [flat_map]. change (N.eqb slash tilde) with false.
        change (N.eqb slash slash) with true. reflexivity.
    + destruct (unescape r) as [u'|] eqn:Eu; [|discriminate]. inversion H; subst u.
      rewrite (IH r u' Eu Hr). unfold escape_lit. cbn [flat_map]. rewrite Et.
      assert (Es : N.eqb c slash = false) by (apply N.eqb_neq; exact Hc). rewrite Es. reflexivity.
Qed.

Lemma unescape_nonempty p u : unescape p = Some u -> p <> [] -> u <> [].
Proof.
  destruct p as [|c r]; [congruence|]. intros H _. cbn [unescape] in H. destruct (N.eqb c tilde).
  - destruct r as [|d r']; [discriminate|]. destruct (N.eqb d 48%N); [destruct (unescape r'); [inversion H; discriminate|discriminate]|].
    destruct (N.eqb d 49%N); [|discriminate]. destruct (unescape r'); [inversion H; discriminate|discriminate].
  - destruct (unescape r); [inversion H; discriminate|discriminate].
Qed.

(* ---------- splitting at '/' ---------- *)
Lemma split_slash_no_slash : forall p cur, no_slash p -> split_slash cur p = [rev cur ++ p].
Proof.
  induction p as [|c r IH]; intros cur Hn; cbn [split_slash]; [rewrite app_nil_r; reflexivity|].
  inversion Hn as [|? ? Hc Hr]; subst. assert (E : N.eqb c slash = false) by (apply N.eqb_neq; exact Hc). rewrite E.
  rewrite (IH (c :: cur) Hr). cbn [rev]. rewrite <- app_assoc. reflexivity.
Qed.
Lemma split_slash_app : forall p cur rest, no_slash p ->
  split_slash cur (p ++ slash :: rest) = (rev cur ++ p) :: split_slash [] rest.
Proof.
  induction p as [|c r IH]; intros cur rest Hn; cbn [app split_slash].
  - change (N.eqb slash slash) with true. cbv iota. rewrite app_nil_r. reflexivity.
  - inversion Hn as [|? ? Hc Hr]; subst. assert (E : N.eqb c slash = false) by (apply N.eqb_neq; exact Hc). rewrite E.
    rewrite (IH (c :: cur) rest Hr). cbn [rev]. rewrite <- app_assoc. reflexivity.
Qed.
Lemma split_join : forall ps, ps <> [] -> Forall no_slash ps -> split_slash [] (join_slash ps) = ps.
Proof.
  induction ps as [|p r IH]; intros Hn F; [congruence|]. inversion F as [|? ? Hp Fr]; subst.
  destruct r as [|q r'].
  - cbn [join_slash]. rewrite (split_slash_no_slash p [] Hp). reflexivity.
  - change (join_slash (p :: q :: r')) with (p ++ slash :: join_slash (q :: r')).
    rewrite (split_slash_app p [] _ Hp). cbn [rev app]. f_equal. apply IH; [discriminate|exact Fr].
Qed.
Lemma join_split : forall x cur, join_slash (split_slash cur x) = rev cur ++ x.
Proof.
  induction x as [|c r IH]; intros cur; cbn [split_slash]; [cbn [join_slash]; rewrite app_nil_r; reflexivity|].
  destruct (N.eqb c slash) eqn:E.
  - apply N.eqb_eq in E. subst c. specialize (IH []). cbn [rev app] in IH.
    destruct (split_slash [] r) as [|q qs] eqn:Es.
    + destruct r; cbn [split_slash] in Es; [discriminate|destruct (N.eqb n slash); discriminate].
    + change (join_slash (rev cur :: q :: qs)) with (rev cur ++ slash :: join_slash (q :: qs)). rewrite IH. reflexivity.
  - rewrite IH. cbn [rev]. rewrite <- app_assoc. reflexivity.
Qed.
Lemma split_parts_no_slash : forall x cur, no_slash cur -> Forall no_slash (split_slash cur x).
Proof.
  induction x as [|c r IH]; intros cur Hc; cbn [split_slash].
  - constructor; [|constructor]. unfold no_slash in *. apply Forall_rev. exact Hc.
  - destruct (N.eqb c slash) eqn:E.
    + constructor; [unfold no_slash in *; apply Forall_rev; exact Hc|apply IH; constructor].
    + apply IH. constructor; [apply N.eqb_neq; exact E|exact Hc].
Qed.
Lemma split_slash_nonempty : forall x cur, split_slash cur x <> [].
Proof. induction x as [|c r IH]; intros cur; cbn [split_slash]; [discriminate|]. destruct (N.eqb c slash); [discriminate|apply IH]. Qed.
Lemma has_slash_spec p : existsb (N.eqb slash) p = false <-> no_slash p.
Proof.
  unfold no_slash. induction p as [|c r IH]; cbn [existsb]; [split; [constructor|reflexivity]|].
  rewrite orb_false_iff, IH. split.
  - intros [H1 H2]. constructor; [apply N.eqb_neq in H1; congruence|exact H2].
  - intros H. inversion H as [|? ? Hc Hr]; subst. split; [apply N.eqb_neq; congruence|exact Hr].
Qed.

(* ---------- unescape_all ---------- *)
Lemma unescape_all_ok : forall ps acc d raw us,
  Forall (fun p : str => p <> []) ps -> Forall2 (fun p u => unescape p = Some u) ps us ->
  unescape_all acc ps d raw = mkref false raw [] (Some (rev acc ++ us)).
Proof.
  induction ps as [|p r IH]; intros acc d raw us Hn F2.
  - inversion F2; subst. cbn [unescape_all]. rewrite app_nil_r. reflexivity.
  - inversion F2 as [|? u ? us' Hu F2']; subst. inversion Hn as [|? ? Hp Hn']; subst.
    cbn [unescape_all]. destruct p as [|c p']; [congruence|]. rewrite Hu. rewrite (IH (u :: acc) d raw us' Hn' F2').
    cbn [rev]. rewrite <- app_assoc. reflexivity.
Qed.
Lemma unescape_all_inv : forall ps acc d raw r,
  unescape_all acc ps d raw = r -> r_err r = false ->
  exists us, Forall (fun p : str => p <> []) ps /\ Forall2 (fun p u => unescape p = Some u) ps us /\
             r = mkref false raw [] (Some (rev acc ++ us)).
Proof.
  induction ps as [|p r0 IH]; intros acc d raw r H He.
  - cbn [unescape_all] in H. subst r. exists []. split; [constructor|]. split; [constructor|]. rewrite app_nil_r. reflexivity.
  - cbn [unescape_all] in H. destruct p as [|c p']; [subst r; discriminate|].
    destruct (unescape (c :: p')) as [u|] eqn:Hu; [|subst r; discriminate].
    destruct (IH _ _ _ _ H He) as [us [F1 [F2 E]]]. exists (u :: us).
    split; [constructor; [discriminate|exact F1]|]. split; [constructor; assumption|].
    rewrite E. cbn [rev]. rewrite <- app_assoc. reflexivity.
Qed.

(* ---------- the theorem ---------- *)
Lemma components_single x u : u <> [] -> ref_components (mkref false x u None) = [u].
Proof. intros H. unfold ref_components, ref_depth, ref_component. cbn. destruct u; [congruence|reflexivity]. Qed.
Lemma map_nth_seq {A} (d : A) : forall l, map (fun i => nth i l d) (seq 0 (List.length l)) = l.
Proof.
  induction l as [|a l IH]; [reflexivity|]. cbn [List.length seq map nth]. f_equal.
  rewrite <- seq_shift, map_map. exact IH.
Qed.
Lemma components_list x us : us <> [] -> ref_components (mkref false x [] (Some us)) = us.
Proof.
  intros H. unfold ref_components, ref_depth. cbn [r_err r_comps]. destruct us as [|u0 us']; [congruence|].
  transitivity (map (fun i => nth i (u0 :: us') []) (seq 0 (List.length (u0 :: us')))); [|apply map_nth_seq].
  apply map_ext. intros i. reflexivity.
Qed.

Lemma forall2_escape us : Forall2 (fun p u => unescape p = Some u) (map escape_lit us) us.
Proof. induction us as [|u r IH]; constructor; [apply unescape_escape|exact IH]. Qed.

Theorem path_is_accepted x cs : is_ref x cs -> ref_valid (new_ref x) = true /\ ref_components (new_ref x) = cs.
Proof.
  intros [[c [r [Ex [Hc Ecs]]]]|[Hn [Fne Ex]]].
  - subst x cs. unfold new_ref. assert (E : N.eqb c slash = false) by (apply N.eqb_neq; exact Hc). rewrite E.
    split; [reflexivity|]. apply components_single. discriminate.
  - subst x. unfold new_ref. change (N.eqb slash slash) with true. cbv iota.
    destruct cs as [|c0 cs']; [congruence|]. inversion Fne as [|? ? H0 Fne']; subst.
    destruct cs' as [|c1 cs''].
    + (* one component *)
      cbn [map join_slash]. pose proof (escape_nonempty c0 H0) as Hne. destruct (escape_lit c0) as [|e0 e'] eqn:Ee; [congruence|].
      rewrite <- Ee. assert (Hs : existsb (N.eqb slash) (escape_lit c0) = false) by (apply has_slash_spec; apply escape_no_slash).
      rewrite Hs. rewrite unescape_escape. split; [reflexivity|]. apply components_single. exact H0.
    + set (ps := map escape_lit (c0 :: c1 :: cs'')).
      assert (Fp : Forall no_slash ps) by (unfold ps; apply Forall_forall; intros p Hp; apply in_map_iff in Hp; destruct Hp as [u [Eu _]]; subst p; apply escape_no_slash).
      assert (Hj : join_slash ps = escape_lit c0 ++ slash :: join_slash (map escape_lit (c1 :: cs''))) by reflexivity.
      assert (Hne : join_slash ps <> []).
      { rewrite Hj. pose proof (escape_nonempty c0 H0). destruct (escape_lit c0); [congruence|discriminate]. }
      assert (Hs : existsb (N.eqb slash) (join_slash ps) = true).
      { rewrite Hj. rewrite existsb_app. cbn [existsb]. change (N.eqb slash slash) with true. cbn [orb]. apply orb_true_r. }
      destruct (join_slash ps) as [|j0 j'] eqn:Ej; [congruence|]. rewrite <- Ej in *.
      rewrite Hs. rewrite (split_join ps ltac:(unfold ps; discriminate) Fp).
      assert (Fn : Forall (fun p : str => p <> []) ps).
      { unfold ps. apply Forall_forall. intros p Hp. apply in_map_iff in Hp. destruct Hp as [u [Eu Hu]]. subst p.
        apply escape_nonempty. rewrite Forall_forall in Fne. apply Fne. exact Hu. }
      rewrite (unescape_all_ok ps [] ref_undef _ (c0 :: c1 :: cs'') Fn (forall2_escape _)). cbn [rev app].
      split; [reflexivity|]. apply components_list. discriminate.
Qed.

Lemma forall2_inv ps us : Forall2 (fun p u => unescape p = Some u) ps us -> Forall no_slash ps -> ps = map escape_lit us.
Proof.
  intros F. induction F as [|p u ps' us' Hu _ IH]; intros Fn; [reflexivity|]. inversion Fn as [|? ? Hp Fn']; subst.
  cbn [map]. rewrite (unescape_inv p u Hu Hp), (IH Fn'). reflexivity.
Qed.
Lemma forall2_nonempty ps us : Forall2 (fun p u => unescape p = Some u) ps us -> Forall (fun p : str => p <> []) ps ->
  Forall (fun c : str => c <> []) us.
Proof.
  intros F. induction F as [|p u ps' us' Hu _ IH]; intros Fn; [constructor|]. inversion Fn as [|? ? Hp Fn']; subst.
  constructor; [eapply unescape_nonempty; eassumption|apply IH; exact Fn'].
Qed.

Theorem accepted_is_path x : ref_valid (new_ref x) = true -> is_ref x (ref_components (new_ref x)).
Proof.
  unfold ref_valid, ref_has_err. intros H. apply negb_true_iff in H. apply orb_false_iff in H. destruct H as [He Hr].
  unfold new_ref in *. destruct x as [|c path]; [discriminate|].
  destruct (N.eqb c slash) eqn:Ec.
  - apply N.eqb_eq in Ec. subst c. destruct path as [|p0 path']; [discriminate|].
    destruct (existsb (N.eqb slash) (p0 :: path')) eqn:Hs.
    + destruct (unescape_all_inv _ _ _ _ _ eq_refl He) as [us [F1 [F2 E]]]. rewrite E. cbn [rev app].
      pose proof (split_parts_no_slash (p0 :: path') [] ltac:(constructor)) as Fn.
      pose proof (forall2_inv _ _ F2 Fn) as Eps.
      assert (Hus : us <> []).
      { intros Hx. subst us. cbn [map] in Eps. exact (split_slash_nonempty _ _ Eps). }
      rewrite (components_list _ us Hus). right. split; [exact Hus|]. split; [exact (forall2_nonempty _ _ F2 F1)|].
      f_equal. rewrite <- Eps. rewrite join_split. reflexivity.
    + destruct (unescape (p0 :: path')) as [u|] eqn:Hu; [|discriminate].
      assert (Hne : u <> []) by (eapply unescape_nonempty; [exact Hu|discriminate]).
      rewrite (components_single _ u Hne). right. split; [discriminate|]. split; [constructor; [exact Hne|constructor]|].
      cbn [map join_slash]. f_equal. apply unescape_inv; [exact Hu|apply has_slash_spec; exact Hs].
  - left. exists c, path. split; [reflexivity|]. split; [apply N.eqb_neq; exact Ec|]. rewrite components_single by discriminate. reflexivity.
Qed.

Theorem ref_accepts_exactly_the_paths x cs :
  (ref_valid (new_ref x) = true /\ ref_components (new_ref x) = cs) <-> is_ref x cs.
Proof.
  split; [intros [H E]; subst cs; apply accepted_is_path; exact H|apply path_is_accepted].
Qed.

(* a literal name denotes itself: one component, whatever characters it contains *)
Theorem literal_is_itself x : x <> [] -> ref_valid (new_literal_ref x) = true /\ ref_components (new_literal_ref x) = [x].
Proof.
  intros Hx. unfold new_literal_ref. destruct x as [|c r]; [congruence|]. destruct (N.eqb c slash).
  - split; [reflexivity|]. apply components_single. discriminate.
  - split; [reflexivity|]. apply components_single. discriminate.
Qed.
(* ... and its string form read back as a reference is the same one-component reference *)
Theorem literal_string_reads_back x : x <> [] ->
  ref_components (new_ref (ref_string (new_literal_ref x))) = [x] /\ ref_valid (new_ref (ref_string (new_literal_ref x))) = true.
Proof.
  intros Hx. unfold new_literal_ref, ref_string. destruct x as [|c r] eqn:E; [congruence|]. rewrite <- E in *.
  destruct (N.eqb c slash) eqn:Ec; cbn [r_raw].
  - assert (Hr : is_ref (slash :: escape_lit x) [x]).
    { right. split; [discriminate|]. split; [constructor; [exact Hx|constructor]|]. reflexivity. }
    destruct (path_is_accepted _ _ Hr) as [A B]. split; assumption.
  - assert (Hr : is_ref x [x]).
    { left. exists c, r. split; [exact E|]. split; [apply N.eqb_neq; exact Ec|reflexivity]. }
    destruct (path_is_accepted _ _ Hr) as [A B]. split; assumption.
Qed.

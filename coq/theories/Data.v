(* JSON values (ldvalue), attribute references (ldattr), evaluation contexts (ldcontext). *)
From LD Require Import Base F32.
Open Scope Z_scope.

Inductive jv :=
| JNull | JBool (b : bool) | JNum (d : dy) | JStr (x : str)
| JArr (l : list jv) | JObj (l : list (str * jv)).

Definition jv_is_null v := match v with JNull => true | _ => false end.

(* ldvalue.Value.Equal restricted to primitives (the only use in evaluation) *)
Definition prim_eqb (a b : jv) : bool :=
  match a, b with
  | JBool x, JBool y => Bool.eqb x y
  | JNum x, JNum y => dy_eqb x y
  | JStr x, JStr y => str_eqb x y
  | _, _ => false
  end.
Definition is_prim (v : jv) : bool :=
  match v with JBool _ | JNum _ | JStr _ => true | _ => false end.

Definition jv_get_by_key (v : jv) (k : str) : jv :=
  match v with
  | JObj l => match assoc k l with Some x => x | None => JNull end
  | _ => JNull
  end.

(* ---------------- ldattr.Ref ---------------- *)
Record ref := mkref {
  r_err : bool;            (* err != nil *)
  r_raw : str;             (* rawPath *)
  r_single : str;          (* singlePathComponent *)
  r_comps : option (list str)   (* components; None = nil slice *)
}.
Definition ref_undef : ref := mkref false [] [] None.

Definition slash : N := 47%N.
Definition tilde : N := 126%N.

Fixpoint split_slash (cur : str) (x : str) : list str :=      (* strings.Split(x, "/") *)
  match x with
  | [] => [rev cur]
  | c :: r => if N.eqb c slash then rev cur :: split_slash [] r else split_slash (c :: cur) r
  end.

Fixpoint unescape (x : str) : option str :=
  match x with
  | [] => Some []
  | c :: r =>
    if N.eqb c tilde then
      match r with
      | d :: r' =>
        if N.eqb d 48%N then option_map (cons tilde) (unescape r')
        else if N.eqb d 49%N then option_map (cons slash) (unescape r')
        else None
      | [] => None
      end
    else option_map (cons c) (unescape r)
  end.

Fixpoint unescape_all (acc : list str) (ps : list str) : ref -> str -> ref :=
  fun dummy raw =>
  match ps with
  | [] => mkref false raw [] (Some (rev acc))
  | p :: r =>
    match p with
    | [] => mkref true raw [] (Some (rev acc))                   (* ErrAttributeExtraSlash, partial components kept *)
    | _ => match unescape p with
           | None => mkref true raw [] None                      (* ErrAttributeInvalidEscape *)
           | Some u => unescape_all (u :: acc) r dummy raw
           end
    end
  end.

Definition new_ref (x : str) : ref :=
  match x with
  | [] => mkref true x [] None
  | c :: path =>
    if N.eqb c slash then
      match path with
      | [] => mkref true x [] None                               (* "/" *)
      | _ =>
        if existsb (N.eqb slash) path then unescape_all [] (split_slash [] path) ref_undef x
        else match unescape path with
             | Some u => mkref false x u None
             | None => mkref true x [] None
             end
      end
    else mkref false x x None
  end.

Definition escape_lit (x : str) : str :=
  flat_map (fun c => if N.eqb c tilde then [tilde; 48%N] else if N.eqb c slash then [tilde; 49%N] else [c]) x.

Definition new_literal_ref (x : str) : ref :=
  match x with
  | [] => mkref true x [] None
  | c :: _ => if N.eqb c slash then mkref false (slash :: escape_lit x) x None
              else mkref false x x None
  end.

Definition ref_defined (r : ref) : bool := negb (match r_raw r with [] => true | _ => false end) || r_err r.
Definition ref_has_err (r : ref) : bool :=       (* Err() != nil *)
  r_err r || (match r_raw r with [] => true | _ => false end).
Definition ref_depth (r : ref) : nat :=
  if r_err r then O
  else match r_comps r with
       | None => match r_single r with [] => O | _ => 1%nat end
       | Some cs => List.length cs
       end.
Definition ref_component (r : ref) (i : nat) : str :=
  match r_comps r with
  | None | Some [] => match i with O => r_single r | _ => [] end
  | Some cs => nth i cs []
  end.
Definition ref_string (r : ref) : str := r_raw r.

(* ---------------- ldcontext.Context ---------------- *)
Record single := mksingle {
  c_kind : str; c_key : str; c_name : option str; c_anon : bool;
  c_secondary : option str; c_attrs : list (str * jv)
}.
Inductive ctx := CInvalid | CSingle (x : single) | CMulti (l : list single).

Definition kind_user : str := s "user".
Definition kind_multi : str := s "multi".
Definition norm_kind (k : str) : str := match k with [] => kind_user | _ => k end.

Definition ctx_individuals (c : ctx) : list single :=
  match c with CInvalid => [] | CSingle x => [x] | CMulti l => l end.

(* Context.IndividualContextByKind *)
Definition ctx_by_kind (c : ctx) (k : str) : option single :=
  find (fun x => str_eqb (c_kind x) (norm_kind k)) (ctx_individuals c).

(* Context.Kind(): "multi" for a multi-context *)
Definition ctx_kind (c : ctx) : str :=
  match c with CInvalid => [] | CSingle x => c_kind x | CMulti _ => kind_multi end.

Definition top_attr (x : single) (name : str) : option jv :=
  if str_eqb name (s "kind") then Some (JStr (c_kind x))
  else if str_eqb name (s "key") then Some (JStr (c_key x))
  else if str_eqb name (s "name") then option_map JStr (c_name x)
  else if str_eqb name (s "anonymous") then Some (JBool (c_anon x))
  else assoc name (c_attrs x).

Fixpoint walk (v : jv) (names : list str) : jv :=
  match names with [] => v | n :: r => walk (jv_get_by_key v n) r end.

(* Context.GetValueForRef on an individual (single-kind) context *)
Definition get_value_for_ref (x : single) (r : ref) : jv :=
  if ref_has_err r then JNull
  else match top_attr x (ref_component r 0) with
       | None => JNull
       | Some v =>
         match r_comps r with
         | None | Some [] => v
         | Some (_ :: rest) => walk v rest
         end
       end.

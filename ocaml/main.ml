(* Glue only: one case per input line (space separated naturals) -> Model.run_line -> one answer line. *)
module ZZ = Z
open Model

let rec pos_of_z (z : ZZ.t) : positive =
  if ZZ.equal z ZZ.one then XH
  else if ZZ.testbit z 0 then XI (pos_of_z (ZZ.shift_right z 1))
  else XO (pos_of_z (ZZ.shift_right z 1))
let n_of_z (z : ZZ.t) : n = if ZZ.sign z = 0 then N0 else Npos (pos_of_z z)
let rec z_of_pos (p : positive) : ZZ.t =
  match p with
  | XH -> ZZ.one
  | XO q -> ZZ.shift_left (z_of_pos q) 1
  | XI q -> ZZ.succ (ZZ.shift_left (z_of_pos q) 1)
let z_of_n (x : n) : ZZ.t = match x with N0 -> ZZ.zero | Npos p -> z_of_pos p

let () =
  let buf = Buffer.create 65536 in
  try
    while true do
      let line = input_line stdin in
      let toks = List.filter (fun t -> t <> "") (String.split_on_char ' ' line) in
      let ns = List.map (fun t -> n_of_z (ZZ.of_string t)) toks in
      let out = run_line ns in
      Buffer.clear buf;
      List.iteri (fun i x -> if i > 0 then Buffer.add_char buf ' '; Buffer.add_string buf (ZZ.to_string (z_of_n x))) out;
      print_endline (Buffer.contents buf)
    done
  with End_of_file -> ()
